------------------------------ MODULE LcdLinkOps ------------------------------
(* X03 operators (no variables): the CrystalFontz packet protocol as urwid/display/lcd.py   *)
(* documents it and the CFA-635 data sheet defines it.                                      *)
(*                                                                                          *)
(*  * CRC: the data sheet's CRC (CCITT polynomial reversed 0x8408, seed 0xFFFF, one's        *)
(*    complement, sent low byte first -- the CRC-16/X-25 of the catalogues, check value      *)
(*    0x906E for "123456789"), computed bit by bit (xor from Bitwise).                      *)
(*  * framing: <<type, length>> \o data \o crc, length <= 22.                                *)
(*  * parser: Parse = _parse_data's docstring (a packet from the start of the buffer, or     *)
(*    "more data required", or "invalid"); ReadAll = _read_packet's resynchronisation        *)
(*    ("throw out a byte and try to parse again").                                           *)
(*  * host: queue of commands with one command in flight, next one sent when the             *)
(*    acknowledgement (type = command | 0x40) arrives; key activity reports (type 0x80)      *)
(*    become key names; KeyRepeatSimulator per its docstrings.                               *)
(*  * device: a reference CFA-635 (character memory, cursor, backlight, contrast, GPOs,      *)
(*    CGRAM) that acknowledges each valid command and answers an invalid one with an error   *)
(*    response (type = command | 0xC0).                                                      *)
(*                                                                                          *)
(* cfg = [md, delay, nxt, keymap, same, tnone, v]: md = MAX_PACKET_DATA_LENGTH, delay / nxt  *)
(* = repeat_delay / repeat_next in ticks, keymap = the six key names, v = "ok" or the name   *)
(* of a deliberately wrong variant; same / tnone select the two places where urwid is known  *)
(* to differ from its documentation (see LcdLinkTrace).                                     *)
EXTENDS Integers, Sequences, FiniteSets, TLC, Bitwise

Range(s) == {s[i] : i \in 1..Len(s)}
RECURSIVE FlatR(_, _)
FlatR(ss, i) == IF i > Len(ss) THEN <<>> ELSE ss[i] \o FlatR(ss, i + 1)
Flat(ss) == FlatR(ss, 1)
IsPrefix(a, b) == Len(a) <= Len(b) /\ SubSeq(b, 1, Len(a)) = a

(* ------------------------------------ CRC ------------------------------------ *)
Poly(x) == x ^^ 33800                                         \* xor 0x8408 (Bitwise, CommunityModules)
RECURSIVE CrcBits(_, _, _)
CrcBits(crc, b, n) ==
  IF n = 0 THEN crc
  ELSE LET s == crc \div 2 IN CrcBits(IF (crc % 2) # (b % 2) THEN Poly(s) ELSE s, b \div 2, n - 1)
\* the same byte by byte with the data sheet's look-up table (crcLookupTable of its "table implementation"); this is what the
\* model checker evaluates, CrcTableIsBitSerial ties it to the bit-serial definition above
CrcTab == <<
      0,  4489,  8978, 12955, 17956, 22445, 25910, 29887, 35912, 40385, 44890, 48851, 51820, 56293, 59774, 63735,
   4225,   264, 13203,  8730, 22181, 18220, 30135, 25662, 40137, 36160, 49115, 44626, 56045, 52068, 63999, 59510,
   8450, 12427,   528,  5017, 26406, 30383, 17460, 21949, 44362, 48323, 36440, 40913, 60270, 64231, 51324, 55797,
  12675,  8202,  4753,   792, 30631, 26158, 21685, 17724, 48587, 44098, 40665, 36688, 64495, 60006, 55549, 51572,
  16900, 21389, 24854, 28831,  1056,  5545, 10034, 14011, 52812, 57285, 60766, 64727, 34920, 39393, 43898, 47859,
  21125, 17164, 29079, 24606,  5281,  1320, 14259,  9786, 57037, 53060, 64991, 60502, 39145, 35168, 48123, 43634,
  25350, 29327, 16404, 20893,  9506, 13483,  1584,  6073, 61262, 65223, 52316, 56789, 43370, 47331, 35448, 39921,
  29575, 25102, 20629, 16668, 13731,  9258,  5809,  1848, 65487, 60998, 56541, 52564, 47595, 43106, 39673, 35696,
  33800, 38273, 42778, 46739, 49708, 54181, 57662, 61623,  2112,  6601, 11090, 15067, 20068, 24557, 28022, 31999,
  38025, 34048, 47003, 42514, 53933, 49956, 61887, 57398,  6337,  2376, 15315, 10842, 24293, 20332, 32247, 27774,
  42250, 46211, 34328, 38801, 58158, 62119, 49212, 53685, 10562, 14539,  2640,  7129, 28518, 32495, 19572, 24061,
  46475, 41986, 38553, 34576, 62383, 57894, 53437, 49460, 14787, 10314,  6865,  2904, 32743, 28270, 23797, 19836,
  50700, 55173, 58654, 62615, 32808, 37281, 41786, 45747, 19012, 23501, 26966, 30943,  3168,  7657, 12146, 16123,
  54925, 50948, 62879, 58390, 37033, 33056, 46011, 41522, 23237, 19276, 31191, 26718,  7393,  3432, 16371, 11898,
  59150, 63111, 50204, 54677, 41258, 45219, 33336, 37809, 27462, 31439, 18516, 23005, 11618, 15595,  3696,  8185,
  63375, 58886, 54429, 50452, 45483, 40994, 37561, 33584, 31687, 27214, 22741, 18780, 15843, 11370,  7921,  3960 >>
CrcByte(crc, b) == (crc \div 256) ^^ CrcTab[((crc ^^ b) % 256) + 1]
RECURSIVE CrcFold(_, _, _)
CrcFold(crc, bytes, i) == IF i > Len(bytes) THEN crc ELSE CrcFold(CrcByte(crc, bytes[i]), bytes, i + 1)
RECURSIVE CrcFoldBits(_, _, _)
CrcFoldBits(crc, bytes, i) == IF i > Len(bytes) THEN crc ELSE CrcFoldBits(CrcBits(crc, bytes[i], 8), bytes, i + 1)
Crc16(bytes) == 65535 - CrcFold(65535, bytes, 1)
Crc16Bits(bytes) == 65535 - CrcFoldBits(65535, bytes, 1)
CrcBytes(bytes) == LET c == Crc16(bytes) IN <<c % 256, c \div 256>>

Digits19 == <<49, 50, 51, 52, 53, 54, 55, 56, 57>>
CrcCheckValue == Crc16(Digits19) = 36974 /\ Crc16Bits(Digits19) = 36974        \* 0x906E
CrcTableIsBitSerial == /\ Len(CrcTab) = 256 /\ \A b \in 0..255 : CrcTab[b + 1] = CrcBits(b, 0, 8)
                       /\ \A b \in 0..255 : \A c \in {0, 1, 255, 256, 4660, 33800, 65535} : CrcByte(c, b) = CrcBits(c, b, 8)
ASSUME CrcLawsOps == CrcCheckValue /\ CrcTableIsBitSerial

(* ---------------------------------- framing ---------------------------------- *)
Packet(c, d) == LET head == <<c, Len(d)>> \o d IN head \o CrcBytes(head)
PacketOf(cmd) == Packet(cmd.c, cmd.d)

\* a packet from the start of buf: [k |-> "pkt", c, d, rest] | [k |-> "more"] | [k |-> "bad"]
Parse(buf, md, crcOn) ==
  IF Len(buf) < 2 THEN [k |-> "more"]
  ELSE IF buf[2] > md THEN [k |-> "bad"]
  ELSE IF Len(buf) < buf[2] + 4 THEN [k |-> "more"]
  ELSE LET n == buf[2]
           head == SubSeq(buf, 1, 2 + n)
       IN IF ~crcOn \/ CrcBytes(head) = SubSeq(buf, 3 + n, 4 + n)
          THEN [k |-> "pkt", c |-> buf[1], d |-> SubSeq(buf, 3, 2 + n), rest |-> SubSeq(buf, 5 + n, Len(buf))]
          ELSE [k |-> "bad"]

\* every packet that can be recognised in buf, resynchronising one byte at a time: [pkts, rest]
RECURSIVE ReadAllR(_, _, _, _)
ReadAllR(buf, md, acc, v) ==
  LET p == Parse(buf, md, v # "no_crc") IN
  CASE p.k = "more" -> [pkts |-> acc, rest |-> buf]
    [] p.k = "bad" -> ReadAllR(IF v = "resync_flush" THEN <<>> ELSE Tail(buf), md, acc, v)
    [] OTHER -> ReadAllR(p.rest, md, Append(acc, [c |-> p.c, d |-> p.d]), v)
ReadAll(buf, md, v) == ReadAllR(buf, md, <<>>, v)

\* the commands of a sequence of well-formed packets (what the host wrote)
PktCmd(p, md) == LET r == Parse(p, md, TRUE) IN IF r.k = "pkt" /\ r.rest = <<>> THEN [c |-> r.c, d |-> r.d] ELSE [c |-> -1, d |-> <<>>]
PktCmds(ps, md) == [i \in 1..Len(ps) |-> PktCmd(ps[i], md)]

(* ------------------------------- command codes ------------------------------- *)
CmdPing == 0
CmdClear == 6
CmdCgram == 9
CmdCursorPos == 11
CmdCursorStyle == 12
CmdContrast == 13
CmdBacklight == 14
CmdLcdData == 31
CmdGpo == 34
KeyActivity == 128
IsAckOf(t, c) == c >= 0 /\ t = 64 + c
IsAck(t) == t \div 64 = 1
DefaultKeyMap == <<"up", "down", "left", "right", "enter", "esc">>

(* ------------------------- key repeat (KeyRepeatSimulator) ------------------------- *)
\* held: keys pressed and not released; multi: two or more keys were down since all keys were last up;
\* dl: when the next simulated event of the single held key is due
Kr0 == [held |-> {}, multi |-> FALSE, dl |-> 0]
KrPress(kr, k, now, cfg) ==
  LET others == IF cfg.same \/ cfg.v = "same_key_twice_is_multi" THEN kr.held ELSE kr.held \ {k} IN
  [held |-> kr.held \cup {k}, multi |-> (kr.multi \/ others # {}) /\ cfg.v # "repeat_while_multi", dl |-> now + (IF cfg.v = "repeat_no_delay" THEN cfg.nxt ELSE cfg.delay)]
KrRelease(kr, k, cfg) ==
  IF k \notin kr.held \/ cfg.v = "repeat_after_release" THEN kr
  ELSE LET hh == kr.held \ {k} IN [held |-> hh, multi |-> kr.multi /\ hh # {}, dl |-> kr.dl]
KrPending(kr) == Cardinality(kr.held) = 1 /\ ~kr.multi
KrKey(kr) == CHOOSE k \in kr.held : TRUE
KrRemaining(kr, now) == IF kr.dl > now THEN kr.dl - now ELSE 0
KrSent(kr, now, cfg) == IF Cardinality(kr.held) # 1 THEN kr ELSE [kr EXCEPT !.dl = now + cfg.nxt]
\* next_event(): <<>> when nothing is pending, else <<remaining, key>>
KrNext(kr, now) == IF KrPending(kr) THEN <<KrRemaining(kr, now), KrKey(kr)>> ELSE <<>>

(* ------------------------------------ host ------------------------------------ *)
NoCmd == -1
NoCanvas == <<-1>>
Host0(style) == [queue |-> <<>>, infl |-> NoCmd, buf |-> <<>>, kr |-> Kr0,
                 sb |-> <<>>, pc |-> NoCanvas, upd |-> FALSE, style |-> style]

\* st = [h, wrote]: wrote = the packets written to the device, in order
SendNext(st, v, via) ==
  IF st.h.queue = <<>> THEN [st EXCEPT !.h.infl = NoCmd]
  ELSE IF v = "never_send_next" /\ via = "ack" THEN [st EXCEPT !.h.infl = NoCmd]
  ELSE LET q == st.h.queue
           lifo == v = "lifo" /\ via = "ack"
           cmd == IF lifo THEN q[Len(q)] ELSE q[1]
           rest == IF lifo THEN SubSeq(q, 1, Len(q) - 1) ELSE Tail(q)
           pk == PacketOf(cmd)
           w == IF v = "ack_drops_next" /\ via = "ack" THEN st.wrote
                ELSE IF v = "ack_sends_twice" /\ via = "ack" THEN st.wrote \o <<pk, pk>>
                ELSE Append(st.wrote, pk)
       IN [h |-> [st.h EXCEPT !.queue = rest, !.infl = cmd.c], wrote |-> w]

QueueCmd(st, cmd, v) ==
  LET s1 == [st EXCEPT !.h.queue = Append(@, cmd)] IN
  IF st.h.infl = NoCmd \/ v = "send_without_wait" THEN SendNext(s1, v, "queue") ELSE s1

RECURSIVE QueueAll(_, _, _, _)
QueueAll(st, cmds, i, v) == IF i > Len(cmds) THEN st ELSE QueueAll(QueueCmd(st, cmds[i], v), cmds, i + 1, v)

\* ps = [st, keys, raw]
HandlePkt(ps, p, now, cfg) ==
  IF p.c = KeyActivity /\ Len(p.d) > 0
  THEN LET d0 == p.d[1] IN
       IF d0 \in 1..6 THEN LET key == cfg.keymap[d0] IN
            [ps EXCEPT !.st.h.kr = KrPress(@, key, now, cfg), !.keys = Append(@, key), !.raw = Append(@, d0)]
       ELSE IF d0 \in 7..12 THEN LET key == cfg.keymap[d0 - 6] IN
            [ps EXCEPT !.st.h.kr = KrRelease(@, key, cfg), !.raw = Append(@, d0)]
       ELSE ps
  ELSE IF IsAckOf(p.c, ps.st.h.infl) \/ (cfg.v = "error_is_ack" /\ ps.st.h.infl >= 0 /\ p.c = 192 + ps.st.h.infl)
       THEN [ps EXCEPT !.st = SendNext(@, cfg.v, "ack")]          \* an error response (type = command | 0xC0) is not an acknowledgement
  ELSE ps

RECURSIVE HandleAll(_, _, _, _, _)
HandleAll(ps, pkts, i, now, cfg) == IF i > Len(pkts) THEN ps ELSE HandleAll(HandlePkt(ps, pkts[i], now, cfg), pkts, i + 1, now, cfg)

\* get_input_nonblocking() after `bytes` were read from the serial port at time now:
\* [h, wrote, keys, raw, timeout (-1 = None), fired, pkts]
PollRef(h, bytes, now, cfg) ==
  LET ra == ReadAll(h.buf \o bytes, cfg.md, cfg.v)
      p0 == [st |-> [h |-> [h EXCEPT !.buf = ra.rest], wrote |-> <<>>], keys |-> <<>>, raw |-> <<>>]
      p1 == HandleAll(p0, ra.pkts, 1, now, cfg)
      kr1 == p1.st.h.kr
      fire == KrPending(kr1) /\ KrRemaining(kr1, now) = 0
      kr2 == IF fire THEN KrSent(kr1, now, cfg) ELSE kr1
      tmo == IF fire /\ (cfg.tnone \/ cfg.v = "timeout_none_after_fire") THEN -1
             ELSE IF KrPending(kr2) THEN KrRemaining(kr2, now) ELSE -1
  IN [h |-> [p1.st.h EXCEPT !.kr = kr2], wrote |-> p1.st.wrote,
      keys |-> IF fire THEN Append(p1.keys, KrKey(kr1)) ELSE p1.keys, raw |-> p1.raw,
      timeout |-> tmo, fired |-> fire, pkts |-> ra.pkts]

(* ------------------------------ public setters ------------------------------ *)
\* the commands a setter queues, or <<>> with exc = "ValueError": [exc, cmds]
Okay(cmds) == [exc |-> "", cmds |-> cmds]
Refused == [exc |-> "ValueError", cmds |-> <<>>]
\* data sheet: GPO 12/11 = LED 0 red/green, 10/9 = LED 1, 8/7 = LED 2, 6/5 = LED 3
LedPin(led, rg) == <<<<12, 11>>, <<10, 9>>, <<8, 7>>, <<6, 5>>>>[led + 1][rg + 1]
Setter(op, a) ==
  CASE op = "backlight" -> IF a[1] \in 0..100 THEN Okay(<<[c |-> CmdBacklight, d |-> <<a[1]>>]>>) ELSE Refused
    [] op = "contrast" -> IF a[1] \in 0..255 THEN Okay(<<[c |-> CmdContrast, d |-> <<a[1]>>]>>) ELSE Refused
    [] op = "led" -> IF a[1] \in 0..3 /\ a[2] \in 0..1 /\ a[3] \in 0..100
                     THEN Okay(<<[c |-> CmdGpo, d |-> <<LedPin(a[1], a[2]), a[3]>>]>>) ELSE Refused
    [] op = "cgram" -> IF a[1] \in 0..7 /\ Len(a) = 9 THEN Okay(<<[c |-> CmdCgram, d |-> a]>>) ELSE Refused
    [] op = "queue" -> Okay(<<[c |-> a[1], d |-> Tail(a)]>>)
    [] op = "cursor_style" -> IF a[1] \in 1..4 THEN Okay(<<>>) ELSE Refused

(* ----------------------------------- device ----------------------------------- *)
Dev0(W, H) == [rows |-> [y \in 1..H |-> <<>>],          \* <<>> = content unknown (power-up / never written)
               cpos |-> <<0, 0>>, cstyle |-> -1, light |-> -1, contrast |-> -1,
               gpo |-> {}, cgram |-> {},          \* sets of <<pin, value>> / <<index, bitmap>>: what was programmed so far
               got |-> <<>>]
Put(reg, k, val) == {p \in reg : p[1] # k} \cup {<<k, val>>}

Valid(cmd, W, H) ==
  LET c == cmd.c
      d == cmd.d
      n == Len(cmd.d)
  IN CASE c = CmdLcdData -> n >= 3 /\ d[1] < W /\ d[2] < H /\ d[1] + n - 2 <= W
       [] c = CmdCursorPos -> n = 2 /\ d[1] < W /\ d[2] < H
       [] c = CmdCursorStyle -> n = 1 /\ d[1] <= 4
       [] c = CmdContrast -> n \in 1..2
       [] c = CmdBacklight -> n \in 1..2 /\ d[1] <= 100
       [] c = CmdGpo -> n = 2 /\ d[1] <= 12 /\ d[2] <= 100
       [] c = CmdCgram -> n = 9 /\ d[1] <= 7
       [] c = CmdPing -> TRUE
       [] c = CmdClear -> n = 0
       [] OTHER -> FALSE

WriteRow(row, col, text, W) ==
  IF row = <<>> THEN (IF col = 0 /\ Len(text) = W THEN text ELSE <<>>)
  ELSE [x \in 1..W |-> IF x - 1 >= col /\ x - 1 < col + Len(text) THEN text[x - col] ELSE row[x]]

DevExec(dev, cmd, W, H) ==
  IF ~Valid(cmd, W, H) THEN [dev EXCEPT !.got = Append(@, cmd)]         \* received, refused, no effect
  ELSE LET c == cmd.c
           d == cmd.d
           dv == [dev EXCEPT !.got = Append(@, cmd)]
       IN CASE c = CmdLcdData -> [dv EXCEPT !.rows[d[2] + 1] = WriteRow(@, d[1], SubSeq(d, 3, Len(d)), W)]
            [] c = CmdCursorPos -> [dv EXCEPT !.cpos = d]
            [] c = CmdCursorStyle -> [dv EXCEPT !.cstyle = d[1]]
            [] c = CmdContrast -> [dv EXCEPT !.contrast = d[1]]
            [] c = CmdBacklight -> [dv EXCEPT !.light = d[1]]
            [] c = CmdGpo -> [dv EXCEPT !.gpo = Put(@, d[1], d[2])]
            [] c = CmdCgram -> [dv EXCEPT !.cgram = Put(@, d[1], Tail(d))]
            [] c = CmdClear -> [dv EXCEPT !.rows = [y \in 1..H |-> [x \in 1..W |-> 32]], !.cpos = <<0, 0>>]
            [] OTHER -> dv
\* the response packet as [c, d]
DevReply(cmd, W, H) ==
  IF Valid(cmd, W, H) THEN [c |-> 64 + cmd.c, d |-> IF cmd.c = CmdPing THEN cmd.d ELSE <<>>]
  ELSE [c |-> 192 + cmd.c, d |-> <<>>]

RECURSIVE DevExecAll(_, _, _, _, _)
DevExecAll(dev, cmds, i, W, H) == IF i > Len(cmds) THEN dev ELSE DevExecAll(DevExec(dev, cmds[i], W, H), cmds, i + 1, W, H)

(* ------------------------------------ draw ------------------------------------ *)
\* canvas = [rows, cur]: rows = H sequences of W bytes, cur = <<>> (no cursor) or <<x, y>>
\* contract: once every command queued so far has been executed the device shows the canvas
ShowsText(dev, cv) == \A y \in 1..Len(cv.rows) : dev.rows[y] = cv.rows[y]
ShowsCursor(dev, cv, style) == IF cv.cur = <<>> THEN dev.cstyle = 0 ELSE dev.cpos = cv.cur /\ dev.cstyle = style
\* efficiency: a row the device already shows is not sent again
RedundantRow(dev, cmd) == cmd.c = CmdLcdData /\ Len(cmd.d) >= 3 /\ cmd.d[2] + 1 \in DOMAIN dev.rows /\ cmd.d[1] = 0
                          /\ dev.rows[cmd.d[2] + 1] = SubSeq(cmd.d, 3, Len(cmd.d))

\* reference implementation (what the model's host does): rows that differ from the previous canvas, then the cursor
RECURSIVE RowCmds(_, _, _, _)
RowCmds(h, cv, y, v) ==
  IF y > Len(cv.rows) THEN <<>>
  ELSE (IF v = "draw_all_rows" \/ h.sb = <<>> \/ h.sb[y] # cv.rows[y]
        THEN <<[c |-> CmdLcdData, d |-> <<0, y - 1>> \o cv.rows[y]]>> ELSE <<>>) \o RowCmds(h, cv, y + 1, v)
CurCmds(h, cv, v) ==
  IF h.pc = cv.cur /\ (~h.upd \/ cv.cur = <<>> \/ v = "style_change_ignored") THEN <<>>
  ELSE IF cv.cur = <<>> THEN <<[c |-> CmdCursorStyle, d |-> <<0>>]>>
  ELSE <<[c |-> CmdCursorPos, d |-> cv.cur], [c |-> CmdCursorStyle, d |-> <<h.style>>]>>
DrawCmds(h, cv, v) == RowCmds(h, cv, 1, v) \o CurCmds(h, cv, v)
AfterDraw(h, cv, v) == [h EXCEPT !.sb = IF v = "draw_diff_stale" /\ h.sb # <<>> THEN h.sb ELSE cv.rows, !.pc = cv.cur, !.upd = FALSE]

\* model canvases: 0 blank without cursor; 1 a pattern, cursor at home; 2 = 1 with another last row; 3 = 2 with the cursor
\* in the last cell; 4 = 1 without cursor
CvRow(i, y, W, H) == IF i = 0 THEN [x \in 1..W |-> 32]
                     ELSE IF i \in {2, 3} /\ y = H THEN [x \in 1..W |-> 66]
                     ELSE [x \in 1..W |-> 65 + ((x + y) % 2)]
CanvasOf(i, W, H) == [rows |-> [y \in 1..H |-> CvRow(i, y, W, H)],
                      cur |-> CASE i \in {1, 2} -> <<0, 0>> [] i = 3 -> <<W - 1, H - 1>> [] OTHER -> <<>>]
===============================================================================
