----------------------------- MODULE ScrollableInd -----------------------------
(* C20, unbounded: an inductive invariant of the Scrollable position state machine, discharged by    *)
(* Apalache (SMT) for ALL integers - stored positions, content heights and view heights - where TLC  *)
(* (Scrollable.tla) enumerates small ranges only.  Same operators as the TLC model (ScrollableOps).  *)
(*   apalache-mc check --init=Init    --inv=IndInv --length=0 ScrollableInd.tla   (base case)        *)
(*   apalache-mc check --init=IndInit --inv=IndInv --length=1 ScrollableInd.tla   (inductive step)   *)
(*   apalache-mc check --init=IndInit --inv=Safe   --length=0 ScrollableInd.tla   (IndInv => Safe)   *)
EXTENDS ScrollableOps

VARIABLES
  \* @type: Int;
  stored,
  \* @type: Str;
  pend,
  \* @type: Int;
  total,
  \* @type: Int;
  h,
  \* @type: Bool;
  rendered

Init == stored = 0 /\ pend = "" /\ total \in Nat /\ h \in Nat \ {0} /\ rendered = FALSE

Key(k) == pend' = k /\ rendered' = FALSE /\ UNCHANGED <<stored, total, h>>
SetPos(v) == stored' = v /\ rendered' = FALSE /\ UNCHANGED <<pend, total, h>>
Resize(h2) == h2 >= 1 /\ h' = h2 /\ rendered' = FALSE /\ UNCHANGED <<stored, pend, total>>
Content(t2) == t2 >= 0 /\ total' = t2 /\ rendered' = FALSE /\ UNCHANGED <<stored, pend, h>>
Render ==
  /\ LET p0 == Resolve(stored, total, h)
         p == IF pend = "" THEN p0 ELSE Nav(p0, pend, total, h)
     IN stored' = p
  /\ pend' = "" /\ rendered' = TRUE /\ UNCHANGED <<total, h>>

Next == \/ \E k \in ScrollKeys : Key(k)
        \/ \E v \in Int : SetPos(v)
        \/ \E h2 \in Int : Resize(h2)
        \/ \E t2 \in Int : Content(t2)
        \/ Render

\* the inductive invariant: constrains every variable
IndInv == /\ total >= 0 /\ h >= 1
          /\ pend \in ScrollKeys \cup {""}
          /\ (rendered => (stored >= 0 /\ stored <= MaxPos(total, h) /\ pend = ""))
IndInit == stored \in Int /\ pend \in ScrollKeys \cup {""} /\ total \in Int /\ h \in Int /\ rendered \in BOOLEAN /\ IndInv

\* must be REFUTED (non-vacuity of the inductive step): a rendering can leave the view at the end of the content
NeverAtEnd == rendered => (stored # MaxPos(total, h) \/ MaxPos(total, h) = 0)

\* what C20 states about the position after a rendering, for every integer input
Safe == rendered => (0 <= stored /\ stored <= Max2(0, total - h))
================================================================================
