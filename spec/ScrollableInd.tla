----------------------------- MODULE ScrollableInd -----------------------------
(* C20, unbounded: an inductive invariant of the Scrollable position state machine, discharged by    *)
(* Apalache (SMT) for ALL integers - stored positions, content heights and view heights - where TLC  *)
(* (Scrollable.tla) enumerates small ranges only.  Same operators as the TLC model (ScrollableOps).  *)
(* The invariant includes "a rendering uses up the pending key" and "nothing is pending across a     *)
(* resize / content change", hence (clampok) such a change can only clamp the position shown.        *)
(*   apalache-mc check --init=Init    --inv=IndInv --length=0 ScrollableInd.tla   (base case)        *)
(*   apalache-mc check --init=IndInit --inv=IndInv --length=1 ScrollableInd.tla   (inductive step)   *)
(*   apalache-mc check --init=IndInit --inv=Safe   --length=0 ScrollableInd.tla   (IndInv => Safe)   *)
EXTENDS ScrollableOps

VARIABLES
  \* @type: Int;
  stored,
  \* @type: Str;
  pend,
  \* @type: Int;
  total,
  \* @type: Int;
  h,
  \* @type: Bool;
  rendered,
  \* @type: Int;
  pr,
  \* @type: Bool;
  quiet,
  \* @type: Bool;
  clampok

Init == /\ stored = 0 /\ pend = "" /\ total \in Nat /\ h \in Nat \ {0} /\ rendered = FALSE
        /\ pr = -1 /\ quiet = TRUE /\ clampok = TRUE

Key(k) == pend' = k /\ rendered' = FALSE /\ quiet' = FALSE /\ UNCHANGED <<stored, total, h, pr, clampok>>
SetPos(v) == stored' = v /\ rendered' = FALSE /\ quiet' = FALSE /\ UNCHANGED <<pend, total, h, pr, clampok>>
Wheel(d) == /\ rendered /\ stored' = WheelPos(stored, d) /\ rendered' = FALSE /\ quiet' = FALSE
            /\ UNCHANGED <<pend, total, h, pr, clampok>>
Resize(h2) == h2 >= 1 /\ h' = h2 /\ rendered' = FALSE /\ UNCHANGED <<stored, pend, total, pr, quiet, clampok>>
Content(t2) == t2 >= 0 /\ total' = t2 /\ rendered' = FALSE /\ UNCHANGED <<stored, pend, h, pr, quiet, clampok>>
Render ==
  /\ LET p == Shown(stored, pend, total, h)
     IN /\ stored' = p /\ pr' = p
        /\ clampok' = ((quiet /\ pr >= 0) => p = Clamp(pr, total, h))
  /\ pend' = "" /\ rendered' = TRUE /\ quiet' = TRUE /\ UNCHANGED <<total, h>>

Next == \/ \E k \in ScrollKeys : Key(k)
        \/ \E v \in Int : SetPos(v)
        \/ \E d \in {"up", "down"} : Wheel(d)
        \/ \E h2 \in Int : Resize(h2)
        \/ \E t2 \in Int : Content(t2)
        \/ Render

\* the inductive invariant: constrains every variable
IndInv == /\ total >= 0 /\ h >= 1
          /\ pend \in ScrollKeys \cup {""}
          /\ (rendered => (stored >= 0 /\ stored <= MaxPos(total, h) /\ pend = ""))
          /\ pr >= -1
          /\ (quiet => (pend = "" /\ (pr >= 0 => stored = pr)))      \* nothing is pending across a resize / content change
          /\ clampok                                                  \* ... so such a change can only clamp the position
IndInit == /\ stored \in Int /\ pend \in ScrollKeys \cup {""} /\ total \in Int /\ h \in Int /\ rendered \in BOOLEAN
           /\ pr \in Int /\ quiet \in BOOLEAN /\ clampok \in BOOLEAN /\ IndInv

\* must be REFUTED (non-vacuity of the inductive step): a rendering can leave the view at the end of the content
NeverAtEnd == rendered => (stored # MaxPos(total, h) \/ MaxPos(total, h) = 0)

\* what C20 states about the position after a rendering, for every integer input
Safe == /\ rendered => (0 <= stored /\ stored <= Max2(0, total - h))
        /\ clampok
================================================================================
