----------------------------- MODULE StrUtilOps -----------------------------
(* C11: the contract of urwid's screen-width arithmetic, written from the property statement *)
(* and the docstrings -- not from the code.                                                  *)
(*                                                                                           *)
(* A text is a sequence of characters.  A character is a record                              *)
(*     [w |-> display width 0..2,  b |-> number of units it occupies]                        *)
(* (units: 1 for a str; the encoded byte length for a byte string in the active encoding).   *)
(* Characters used for encoding additionally carry cp (code point) and enc (its bytes under  *)
(* the target codec).  Which width a character OUGHT to have is given (w comes from the      *)
(* width table, wcwidth); the contract decides what the functions must do WITH the widths.   *)
(* Offsets are unit offsets 0..Total(cs), exactly what the Python functions take and return. *)
EXTENDS Integers, Sequences, FiniteSets

Max(S) == CHOOSE x \in S : \A y \in S : y <= x
Min(S) == CHOOSE x \in S : \A y \in S : x <= y

\* ------------------------------------------------------------------ offsets and boundaries
RECURSIVE Offs(_, _)
Offs(cs, k) == IF k = 0 THEN 0 ELSE Offs(cs, k - 1) + cs[k].b          \* unit offset of boundary k (0..Len)
Total(cs) == Offs(cs, Len(cs))
Boundaries(cs) == {Offs(cs, k) : k \in 0..Len(cs)}
IsBoundary(cs, o) == o \in Boundaries(cs)
RECURSIVE IdxFrom(_, _, _, _)
IdxFrom(cs, o, k, acc) == IF acc >= o \/ k = Len(cs) THEN k ELSE IdxFrom(cs, o, k + 1, acc + cs[k + 1].b)
Idx(cs, o) == IdxFrom(cs, o, 0, 0)                                       \* boundary number of a boundary offset
\* the same text seen as a str: every character is one unit
AsStr(cs) == [k \in 1..Len(cs) |-> [cs[k] EXCEPT !.b = 1]]

\* ------------------------------------------------------------------ display width
RECURSIVE WidthIdx(_, _, _)
WidthIdx(cs, i, j) == IF j <= i THEN 0 ELSE WidthIdx(cs, i, j - 1) + cs[j].w   \* characters i+1..j
CalcWidth(cs, s, e) == WidthIdx(cs, Idx(cs, s), Idx(cs, e))                     \* s <= e boundaries

\* ------------------------------------------------------------------ offset for a target column
\* what the property states about a result (rp, rc) of calc_text_pos(text, s, e, col):
PosOnBoundary(cs, s, e, rp) == IsBoundary(cs, rp) /\ s <= rp /\ rp <= e          \* never inside a character
PosColIsWidth(cs, s, rp, rc) == rc = CalcWidth(cs, s, rp)                        \* agrees with calc_width
PosNotBeyond(col, rc) == rc <= col                                                \* nor beyond the requested column
PosClosest(cs, s, e, col, rc) ==                                                  \* "the closest position to the column"
  ~\E k \in Idx(cs, s)..Idx(cs, e) : LET c == WidthIdx(cs, Idx(cs, s), k) IN c <= col /\ c > rc
PosOK(cs, s, e, col, rp, rc) ==
  /\ PosOnBoundary(cs, s, e, rp) /\ PosColIsWidth(cs, s, rp, rc) /\ PosNotBeyond(col, rc) /\ PosClosest(cs, s, e, col, rc)
\* reference: the furthest boundary whose column does not exceed the target (col >= 0)
RefPos(cs, s, e, col) ==
  LET ks == Idx(cs, s)
      k == Max({j \in ks..Idx(cs, e) : WidthIdx(cs, ks, j) <= col})
  IN <<Offs(cs, k), WidthIdx(cs, ks, k)>>

\* ------------------------------------------------------------------ stepping
MoveNext(cs, s) == Offs(cs, Idx(cs, s) + 1)      \* s a boundary before the end
MovePrev(cs, e) == Offs(cs, Idx(cs, e) - 1)      \* e a boundary after the start
IsWide(cs, o) == cs[Idx(cs, o) + 1].w = 2        \* character starting at boundary o
CharAt(cs, o) == cs[Idx(cs, o) + 1]
\* double-byte text (b \in {1,2}): 0 = single byte, 1 = first half, 2 = second half
WithinDouble(cs, pos) == IF IsBoundary(cs, pos) THEN (IF CharAt(cs, pos).b = 2 THEN 1 ELSE 0) ELSE 2

\* ------------------------------------------------------------------ trimming to a column range [sc, ec)
\* a double-width character of text[s:e] occupies columns c-1 and c, i.e. straddles the edge at column c
Straddles(cs, s, e, c) ==
  LET ks == Idx(cs, s) IN \E k \in (ks + 1)..Idx(cs, e) : cs[k].w = 2 /\ WidthIdx(cs, ks, k - 1) = c - 1
TrimIsSlice(cs, s, e, rs, re) == IsBoundary(cs, rs) /\ IsBoundary(cs, re) /\ s <= rs /\ rs <= re /\ re <= e
TrimFlagsAreFlags(pl, pr) == pl \in {0, 1} /\ pr \in {0, 1}
TrimTotalWidth(cs, sc, ec, rs, re, pl, pr) == pl + CalcWidth(cs, rs, re) + pr = ec - sc
TrimFlagsStraddle(cs, s, e, sc, ec, pl, pr) == ((pl = 1) <=> Straddles(cs, s, e, sc)) /\ ((pr = 1) <=> Straddles(cs, s, e, ec))
TrimStartsAtRange(cs, s, sc, rs, pl) == CalcWidth(cs, s, rs) = sc + pl           \* the slice is the slice OF THE RANGE
TrimOK(cs, s, e, sc, ec, rs, re, pl, pr) ==
  /\ TrimIsSlice(cs, s, e, rs, re) /\ TrimFlagsAreFlags(pl, pr) /\ TrimTotalWidth(cs, sc, ec, rs, re, pl, pr)
  /\ TrimFlagsStraddle(cs, s, e, sc, ec, pl, pr) /\ TrimStartsAtRange(cs, s, sc, rs, pl)
\* reference (0 <= sc < ec <= width of text[s:e])
RefTrim(cs, s, e, sc, ec) ==
  LET pl == IF Straddles(cs, s, e, sc) THEN 1 ELSE 0
      pr == IF Straddles(cs, s, e, ec) THEN 1 ELSE 0
      rs == RefPos(cs, s, e, sc + pl)[1]
      re == RefPos(cs, rs, e, ec - sc - pl)[1]
  IN <<rs, re, pl, pr>>

\* ------------------------------------------------------------------ output encoding, DEC special graphics
\* VT100 special graphics set (DEC STD 070 / xterm ctlseqs): code point -> byte in the alternate charset
DecTable == <<
  <<9670, 96>>,  <<9618, 97>>,  <<9225, 98>>,  <<9228, 99>>,  <<9229, 100>>, <<9226, 101>>, <<176, 102>>,  <<177, 103>>,
  <<9252, 104>>, <<9227, 105>>, <<9496, 106>>, <<9488, 107>>, <<9484, 108>>, <<9492, 109>>, <<9532, 110>>, <<9146, 111>>,
  <<9147, 112>>, <<9472, 113>>, <<9148, 114>>, <<9149, 115>>, <<9500, 116>>, <<9508, 117>>, <<9524, 118>>, <<9516, 119>>,
  <<9474, 120>>, <<8804, 121>>, <<8805, 122>>, <<960, 123>>,  <<8800, 124>>, <<163, 125>>,  <<183, 126>> >>
DecAlt(cp) == IF \E i \in 1..Len(DecTable) : DecTable[i][1] = cp
              THEN DecTable[CHOOSE i \in 1..Len(DecTable) : DecTable[i][1] = cp][2] ELSE 0
IsDec(cp) == DecAlt(cp) # 0

RECURSIVE Flat(_)
Flat(ss) == IF ss = <<>> THEN <<>> ELSE Head(ss) \o Flat(Tail(ss))
Rep(x, n) == [i \in 1..n |-> x]
\* dec = the encoding mode uses the DEC alternate charset (every mode but UTF-8)
EncodeBytes(cs, dec) == Flat([k \in 1..Len(cs) |-> IF dec /\ IsDec(cs[k].cp) THEN <<DecAlt(cs[k].cp)>> ELSE cs[k].enc])
EncodeTags(cs, dec) == Flat([k \in 1..Len(cs) |-> IF dec /\ IsDec(cs[k].cp) THEN <<"0">> ELSE Rep("n", Len(cs[k].enc))])
\* a charset run list is a sequence of <<tag, length>>
Expand(runs) == Flat([k \in 1..Len(runs) |-> Rep(runs[k][1], runs[k][2])])
RECURSIVE RunTotal(_)
RunTotal(runs) == IF runs = <<>> THEN 0 ELSE Head(runs)[2] + RunTotal(Tail(runs))
\* reference run list: maximal runs of equal tags
RECURSIVE Rle(_)
Rle(tags) == IF tags = <<>> THEN <<>>
             ELSE LET r == Rle(Tail(tags)) IN
                  IF r # <<>> /\ r[1][1] = Head(tags) THEN <<<<Head(tags), r[1][2] + 1>>>> \o Tail(r)
                  ELSE <<<<Head(tags), 1>>>> \o r

\* the algorithm as urwid codes it: translate DEC characters to SO alt SI, drop SI SO pairs, encode, then
\* walk the bytes keeping the shift state (14 = SO shift out, 15 = SI shift in); the shifts are not emitted.
AsCodedShifted(cs, dec) == Flat([k \in 1..Len(cs) |-> IF dec /\ IsDec(cs[k].cp) THEN <<14, DecAlt(cs[k].cp), 15>> ELSE cs[k].enc])
RECURSIVE DropSiSo(_)
DropSiSo(bs) == IF Len(bs) < 2 THEN bs
                ELSE IF bs[1] = 15 /\ bs[2] = 14 THEN DropSiSo(SubSeq(bs, 3, Len(bs)))
                ELSE <<bs[1]>> \o DropSiSo(Tail(bs))
RECURSIVE Walk(_, _, _, _)
Walk(bs, alt, out, tags) ==
  IF bs = <<>> THEN [out |-> out, tags |-> tags]
  ELSE IF bs[1] = 14 THEN Walk(Tail(bs), TRUE, out, tags)
  ELSE IF bs[1] = 15 THEN Walk(Tail(bs), FALSE, out, tags)
  ELSE Walk(Tail(bs), alt, Append(out, bs[1]), Append(tags, IF alt THEN "0" ELSE "n"))
AsCodedEncode(cs, dec) == Walk(DropSiSo(AsCodedShifted(cs, dec)), FALSE, <<>>, <<>>)

\* ------------------------------------------------------------------ the active encoding is process state
\* "under the active encoding": urwid.set_encoding(name) selects the mode every later call works in (get_encoding_mode():
\* 'utf8' for UTF-8, 'wide' for the double-byte CJK encodings, 'narrow' for 8-bit encodings).  The same byte string is a
\* DIFFERENT text under another encoding: every answer has to be the one for the encoding active at the time of the call.
Utf8Names == {"utf-8", "utf8", "utf"}
WideNames == {"euc-jp", "euc-kr", "euc-cn", "euc-tw", "gb2312", "gbk", "big5", "cn-gb", "uhc"}
EncodingMode(enc) == IF enc \in Utf8Names THEN "utf8" ELSE IF enc \in WideNames THEN "wide" ELSE "narrow"
\* the bytes of a text (characters carry enc = their bytes in the encoding they were read in)
AllBytes(cs) == Flat([k \in 1..Len(cs) |-> cs[k].enc])
\* the text a byte string is under a single-byte encoding: every byte one character of one column
NarrowView(bs) == [k \in 1..Len(bs) |-> [w |-> 1, b |-> 1, cp |-> bs[k], enc |-> <<bs[k]>>]]
\* two texts are readings of one byte string
SameBytes(cs1, cs2) == AllBytes(cs1) = AllBytes(cs2)

\* ------------------------------------------------------------------ UTF-8 facts used by the per-code-point sweep
Utf8Len(cp) == IF cp < 128 THEN 1 ELSE IF cp < 2048 THEN 2 ELSE IF cp < 65536 THEN 3 ELSE 4
IsScalar(cp) == cp >= 0 /\ cp <= 1114111 /\ ~(cp >= 55296 /\ cp <= 57343)
=============================================================================
