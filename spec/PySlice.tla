---------------------------- MODULE PySlice ----------------------------
(* Python index / slice normalisation and the list mutators of the built-in list type,   *)
(* written over 0-based indices on TLA+ sequences.  Shared by MonitoredList (C16),       *)
(* FocusTree (C08) and ListBox (C07).  No variables.                                     *)
EXTENDS Integers, Sequences, FiniteSets, TLC

None == 1000   \* stands for Python's None where an index / step may be omitted

Min(a, b) == IF a < b THEN a ELSE b
Max(a, b) == IF a > b THEN a ELSE b

At(s, i) == s[i + 1]                        \* 0-based element access
Sub0(s, lo, hi) == SubSeq(s, lo + 1, hi)    \* s[lo:hi] for 0 <= lo, hi <= Len(s)

\* slice(a, b, s).indices(n)  (CPython PySlice_AdjustIndices), s # 0
SliceIndices(a, b, s, n) ==
  LET step  == IF s = None THEN 1 ELSE s
      lower == IF step > 0 THEN 0 ELSE -1
      upper == IF step > 0 THEN n ELSE n - 1
      Clamp(x) == IF x < 0 THEN Max(x + n, lower) ELSE Min(x, upper)
      start == IF a = None THEN (IF step < 0 THEN upper ELSE lower) ELSE Clamp(a)
      stop  == IF b = None THEN (IF step < 0 THEN lower ELSE upper) ELSE Clamp(b)
  IN <<start, stop, step>>

RangeLen(start, stop, step) ==
  IF step > 0 THEN (IF stop > start THEN (stop - start + step - 1) \div step ELSE 0)
  ELSE (IF stop < start THEN (start - stop - step - 1) \div (-step) ELSE 0)
RangeSeq(start, stop, step) == [k \in 1..RangeLen(start, stop, step) |-> start + (k - 1) * step]
RangeSet(start, stop, step) == {start + (k - 1) * step : k \in 1..RangeLen(start, stop, step)}

\* index normalisation of x[i]
NormIndex(i, n) == IF i < 0 THEN i + n ELSE i
ValidIndex(i, n) == NormIndex(i, n) >= 0 /\ NormIndex(i, n) < n
\* list.insert position
InsertPos(i, n) == IF i < 0 THEN Max(i + n, 0) ELSE Min(i, n)

Repeat(s, k) == [j \in 1..(Len(s) * k) |-> s[((j - 1) % Len(s)) + 1]]
Reverse(s) == [j \in 1..Len(s) |-> s[Len(s) + 1 - j]]
IndexOf(s, v) == IF \E j \in 1..Len(s) : s[j] = v THEN (CHOOSE j \in 1..Len(s) : s[j] = v /\ \A k \in 1..(j - 1) : s[k] # v) - 1 ELSE -1

\* delete the (0-based) index set R from s
DeleteSet(s, R) ==
  LET n == Len(s)
      Keep == {i \in 0..(n - 1) : i \notin R}
      NewPos(i) == i - Cardinality({r \in R : r < i /\ r >= 0 /\ r < n})
  IN [k \in 1..Cardinality(Keep) |-> s[(CHOOSE i \in Keep : NewPos(i) = k - 1) + 1]]

-------------------------------------------------------------------------
(* A list operation is a record [n, a, b, s, new].  ListApply returns                     *)
(*   [items |-> new contents, err |-> "" | "IndexError" | "ValueError",                   *)
(*    pos   |-> sequence over the OLD indices: new 0-based position of that item, or -1   *)
(*              when the item is removed (an item replaced in place keeps its position)]  *)
Ident(n) == [i \in 1..n |-> i - 1]
Fail(items, e) == [items |-> items, err |-> e, pos |-> Ident(Len(items))]

SetSlice(items, a, b, s, new) ==
  LET n == Len(items) IN
  IF s = 0 THEN Fail(items, "ValueError") ELSE
  LET ix == SliceIndices(a, b, s, n)
      start == ix[1]  stop == ix[2]  step == ix[3]
  IN IF step = 1
     THEN LET sp == Max(start, stop)
              k  == Len(new)
          IN [items |-> Sub0(items, 0, start) \o new \o Sub0(items, sp, n),
              err |-> "",
              pos |-> [j \in 1..n |-> LET i == j - 1 IN
                        IF i < start THEN i
                        ELSE IF i < sp THEN (IF i < start + k THEN i ELSE -1)
                        ELSE i + k - (sp - start)]]
     ELSE LET rng == RangeSeq(start, stop, step) IN
          IF Len(new) # Len(rng) THEN Fail(items, "ValueError")
          ELSE [items |-> [j \in 1..n |-> IF \E k \in 1..Len(rng) : rng[k] = j - 1
                                           THEN new[CHOOSE k \in 1..Len(rng) : rng[k] = j - 1]
                                           ELSE items[j]],
                err |-> "", pos |-> Ident(n)]

DelSet(items, R) ==
  LET n == Len(items) IN
  [items |-> DeleteSet(items, R), err |-> "",
   pos |-> [j \in 1..n |-> IF (j - 1) \in R THEN -1 ELSE (j - 1) - Cardinality({r \in R : r < j - 1})]]

DelSlice(items, a, b, s) ==
  IF s = 0 THEN Fail(items, "ValueError") ELSE
  LET ix == SliceIndices(a, b, s, Len(items)) IN DelSet(items, RangeSet(ix[1], ix[2], ix[3]))

SetItem(items, i, v) ==
  LET n == Len(items) IN
  IF ~ValidIndex(i, n) THEN Fail(items, "IndexError")
  ELSE [items |-> [items EXCEPT ![NormIndex(i, n) + 1] = v], err |-> "", pos |-> Ident(n)]

DelItem(items, i) ==
  LET n == Len(items) IN
  IF ~ValidIndex(i, n) THEN Fail(items, "IndexError") ELSE DelSet(items, {NormIndex(i, n)})

Insert(items, i, v) ==
  LET n == Len(items)  p == InsertPos(i, n) IN
  [items |-> Sub0(items, 0, p) \o <<v>> \o Sub0(items, p, n), err |-> "",
   pos |-> [j \in 1..n |-> IF j - 1 < p THEN j - 1 ELSE j]]

Extend(items, new) == [items |-> items \o new, err |-> "", pos |-> Ident(Len(items))]

Pop(items, i) == DelItem(items, IF i = None THEN -1 ELSE i)

Remove(items, v) ==
  IF IndexOf(items, v) < 0 THEN Fail(items, "ValueError") ELSE DelSet(items, {IndexOf(items, v)})

ReverseOp(items) == [items |-> Reverse(items), err |-> "", pos |-> [j \in 1..Len(items) |-> Len(items) - j]]

SortOp(items) ==
  LET srt == SortSeq(items, <) IN
  [items |-> srt, err |-> "", pos |-> [j \in 1..Len(items) |-> IndexOf(srt, items[j])]]

IMul(items, k) ==
  IF k <= 0 THEN DelSet(items, 0..(Len(items) - 1))
  ELSE [items |-> Repeat(items, k), err |-> "", pos |-> Ident(Len(items))]

ListApply(items, op) ==
  CASE op.n = "setslice" -> SetSlice(items, op.a, op.b, op.s, op.new)
    [] op.n = "delslice" -> DelSlice(items, op.a, op.b, op.s)
    [] op.n = "setitem"  -> SetItem(items, op.a, op.new[1])
    [] op.n = "delitem"  -> DelItem(items, op.a)
    [] op.n = "insert"   -> Insert(items, op.a, op.new[1])
    [] op.n = "append"   -> Extend(items, op.new)
    [] op.n = "extend"   -> Extend(items, op.new)
    [] op.n = "iadd"     -> Extend(items, op.new)
    [] op.n = "pop"      -> Pop(items, op.a)
    [] op.n = "remove"   -> Remove(items, op.a)
    [] op.n = "reverse"  -> ReverseOp(items)
    [] op.n = "sort"     -> SortOp(items)
    [] op.n = "imul"     -> IMul(items, op.a)
    [] op.n = "clear"    -> DelSet(items, 0..(Len(items) - 1))
    [] OTHER             -> Fail(items, "")
=========================================================================
