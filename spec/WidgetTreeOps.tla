--------------------------- MODULE WidgetTreeOps ---------------------------
(* C01 / C09: abstract widget terms and the composition contract of the bundled widgets,     *)
(* written from the class and constructor documentation (not from the render code).          *)
(*                                                                                           *)
(* A raw term is  [k |-> kind, o |-> options, c |-> children]  with options a tuple of       *)
(* strings and small integers (every position has one type).  Mk(k, o, c) builds the         *)
(* annotated term from annotated children, adding                                            *)
(*   s  the sizing modes ("box" (cols,rows), "flow" (cols,), "fixed" ()) the documentation   *)
(*      says the widget advertises,                                                          *)
(*   u  the advertised modes in which every child is used in a mode it can itself be used in *)
(*      (recursively), d the depth and n the number of nodes.                                *)
(* Ann(t) annotates a raw term (as read from a trace file) bottom-up.                        *)
EXTENDS Naturals, Integers, Sequences, FiniteSets

Modes == {"box", "flow", "fixed"}

LeafKinds == {"Text", "Edit", "Button", "CheckBox", "RadioButton", "SelectableIcon", "Divider", "SolidFill",
              "BigText", "ProgressBar", "BarGraph", "Probe", "TEdit", "TIcon"}
DecoKinds == {"Padding", "Filler", "LineBox", "AttrMap", "BoxAdapter", "WidgetDisable", "WidgetPlaceholder",
              "Scrollable", "ScrollBar"}
ContKinds == {"Pile", "Columns", "Frame", "Overlay", "GridFlow", "ListBox"}

MaxOf(S) == CHOOSE a \in S : \A b \in S : a >= b
MinOf(S) == CHOOSE a \in S : \A b \in S : a <= b
SumSeq(s) == LET RECURSIVE Sm(_)
                 Sm(i) == IF i = 0 THEN 0 ELSE s[i] + Sm(i - 1)
             IN Sm(Len(s))

(* ---- option readers ---------------------------------------------------------------------- *)
IsGiven(s) == s \in {"g1", "g2", "g3", "g4"}
\* Padding: <<align, width, min_width, left, right>>       Filler: <<valign, height, min_height, top, bottom>>
\* Pile:    <<focus, <<opt...>>>>, opt = <<kind, amount>>
\* Columns: <<dividechars, min_width, focus, <<opt...>>>>, opt = <<kind, amount, boxflag>>
\* Overlay: <<align, width, valign, height, min_w, min_h, left, right, top, bottom>>, c = <<top_w, bottom_w>>
\* Frame:   <<has_header, has_footer, focus_part>>, c = <<body, header?, footer?>>

(* ---- advertised sizing, from the documentation ------------------------------------------- *)
LeafSizing(k, o) ==
  CASE k \in {"Text", "Button", "CheckBox", "RadioButton", "SelectableIcon", "TIcon"} -> {"flow", "fixed"}
    [] k \in {"Edit", "TEdit", "Divider", "ProgressBar"} -> {"flow"}
    [] k \in {"SolidFill", "BarGraph"} -> {"box"}
    [] k = "BigText" -> {"fixed"}
    [] k = "Probe" -> {o[2]}

\* flags of one Pile item (Pile.sizing "Rules")
PileItemModes(opt, S) ==
  CASE opt[1] = "weight" -> (IF "box" \in S THEN {"box"} ELSE {}) \cup (IF "flow" \in S THEN {"flow"} ELSE {})
                            \cup (IF "fixed" \in S /\ (S \cap {"box", "flow"}) # {} THEN {"fixed"} ELSE {})
    [] opt[1] = "given"  -> IF "box" \in S THEN {"box", "flow"} ELSE {}
    [] opt[1] = "pack"   -> S \cap {"flow", "fixed"}
\* flags of one Columns item (Columns.sizing "Rules")
ColItemModes(opt, S) ==
  CASE opt[1] = "weight" -> (IF "box" \in S THEN {"box"} ELSE {}) \cup (IF "flow" \in S THEN {"flow"} ELSE {})
                            \cup (IF "fixed" \in S /\ (S \cap {"box", "flow"}) # {} THEN {"fixed"} ELSE {})
    [] opt[1] = "given"  -> (IF "box" \in S THEN {"box"} ELSE {}) \cup (IF "flow" \in S THEN {"flow", "fixed"} ELSE {})
    [] opt[1] = "pack"   -> S \cap {"flow", "fixed"}

ColumnsRes(o, n, S) ==
  LET F(i) == ColItemModes(o[4][i], S[i])
      isbox(i) == o[4][i][3] = 1
      strict == \E i \in 1..n : "box" \in F(i) /\ ~isbox(i) /\ F(i) \cap {"flow", "fixed"} = {}
      hasfixed == \E i \in 1..n : "fixed" \in F(i)
      blockfixed == \E i \in 1..n : "fixed" \notin F(i) /\ ~(o[4][i][1] = "given" /\ "box" \in F(i))
  IN (IF \A i \in 1..n : "box" \in F(i) THEN {"box"} ELSE {})
     \cup (IF ~strict /\ (\E i \in 1..n : "flow" \in F(i)) THEN {"flow"} ELSE {})
     \cup (IF ~strict /\ hasfixed /\ ~blockfixed THEN {"flow", "fixed"} ELSE {})
ColumnsDetermined(o, n, S) == ColumnsRes(o, n, S) # {}

\* k kind, o options, n number of children, S[i] advertised sizing of child i
SizingOf(k, o, n, S) ==
  CASE k \in LeafKinds -> LeafSizing(k, o)
    [] k \in {"LineBox", "AttrMap", "WidgetDisable", "WidgetPlaceholder"} -> S[1]
    [] k = "Padding" -> IF o[2] = "clip" THEN {"flow"}
                        ELSE IF IsGiven(o[2]) /\ "flow" \in S[1] THEN S[1] \cup {"fixed"} ELSE S[1]
    [] k = "Filler" -> IF o[2] = "pack" \/ IsGiven(o[2]) THEN {"box", "flow"} ELSE {"box"}
    [] k = "BoxAdapter" -> {"flow"}
    [] k \in {"Scrollable", "ScrollBar", "Frame", "ListBox"} -> {"box"}
    [] k = "GridFlow" -> IF n > 0 THEN {"flow", "fixed"} ELSE {"flow"}
    [] k = "Overlay" ->
         LET top == S[1]  w == o[2]  h == o[4]
             wknown == IsGiven(w) \/ o[5] > 0
             hknown == IsGiven(h) \/ o[6] > 0
         IN {"box"} \cup
            (IF w = "pack" THEN (IF "fixed" \in top THEN {"fixed"} ELSE {})
             ELSE IF h = "pack" THEN (IF "flow" \in top THEN {"flow"} \cup (IF wknown THEN {"fixed"} ELSE {}) ELSE {})
             ELSE IF hknown /\ "box" \in top THEN {"flow"} \cup (IF wknown THEN {"fixed"} ELSE {})
             ELSE {})
    [] k = "Pile" ->
         IF n = 0 THEN {"box", "flow"}
         ELSE LET F(i) == PileItemModes(o[2][i], S[i])
                  strict == \E i \in 1..n : "box" \in F(i) /\ F(i) \cap {"flow", "fixed"} = {}
              IN IF \E i \in 1..n : F(i) = {} THEN {"box", "flow"}        \* documented fallback
                 ELSE (IF \E i \in 1..n : "box" \in F(i) THEN {"box"} ELSE {})
                      \cup (IF ~strict /\ (\E i \in 1..n : "flow" \in F(i)) THEN {"flow"} ELSE {})
                      \cup (IF ~strict /\ (\E i \in 1..n : "fixed" \in F(i)) THEN {"fixed"} ELSE {})
    [] k = "Columns" ->
         IF n = 0 THEN {"box", "flow"}
         ELSE LET F(i) == ColItemModes(o[4][i], S[i])
                  res == ColumnsRes(o, n, S)
              IN IF (\E i \in 1..n : F(i) = {}) \/ res = {} THEN {"box", "flow"} ELSE res

(* ---- how a child is used ------------------------------------------------------------------ *)
\* the modes acceptable for child i when the parent is used in mode m ("none": child not rendered, anything goes)
ChildModesOf(k, o, i, m) ==
  CASE k \in {"LineBox", "AttrMap", "WidgetDisable", "WidgetPlaceholder"} -> {m}
    [] k = "Padding" -> IF o[2] = "clip" THEN {"fixed"}
                        ELSE IF m = "fixed" THEN (IF IsGiven(o[2]) THEN {"flow"} ELSE {"fixed"})
                        ELSE {m}
    [] k = "Filler" -> IF o[2] = "pack" THEN {"flow"} ELSE {"box"}
    [] k = "BoxAdapter" -> {"box"}
    [] k = "Scrollable" -> {"flow", "fixed"}
    [] k = "ScrollBar" -> {"box"}
    [] k = "Frame" -> IF i = 1 THEN {"box"} ELSE {"flow"}
    [] k \in {"ListBox", "GridFlow"} -> {"flow"}
    [] k = "Overlay" -> IF i = 2 THEN {"box"}
                        ELSE IF o[2] = "pack" THEN {"fixed"}
                        ELSE IF o[4] = "pack" THEN {"flow"} ELSE {"box"}
    [] k = "Pile" ->
         LET opt == o[2][i] IN
         IF opt[1] = "given" THEN {"box"}
         ELSE IF opt[1] = "weight" /\ opt[2] = 0 THEN {"none"}
         ELSE IF m = "box" THEN (IF opt[1] = "weight" THEN {"box"} ELSE {"flow"})
         ELSE IF m = "flow" THEN (IF opt[1] = "pack" THEN {"flow", "fixed"} ELSE {"flow"})
         ELSE {"flow", "fixed"}
    [] k = "Columns" ->
         LET opt == o[4][i] IN
         IF m = "box" THEN {"box"}
         ELSE IF opt[3] = 1 THEN {"box"}
         ELSE IF opt[1] = "pack" THEN {"flow", "fixed"}
         ELSE {"flow"}

\* construction-time requirements stated by the constructor documentation, independent of the mode of use
\* (S[i] advertised sizing of child i, U[i] its usable modes, KK[i] its kind).  A child must really be usable in the
\* mode the constructor documentation demands, so over-claimed modes of a child are never relied upon.
ArgsOKOf(k, o, n, S, U, KK) ==
  CASE k = "Padding" -> /\ (o[2] = "clip" => "fixed" \in U[1])
                        /\ (o[2] = "pack" => ("flow" \in U[1] \/ S[1] = {"fixed"}))
                        /\ (IsGiven(o[2]) => U[1] \cap {"flow", "box"} # {})
    [] k = "Filler" -> IF o[2] = "pack" THEN "flow" \in U[1] ELSE "box" \in U[1]
    [] k = "LineBox" -> (o[3] \in {"notop", "none"} => o[1] = "empty")      \* "Cannot have a title when tline is empty string"
    [] k = "BoxAdapter" -> "box" \in U[1]
    [] k = "Scrollable" -> U[1] \cap {"flow", "fixed"} # {}
    [] k = "ScrollBar" -> KK[1] \in {"Scrollable", "ListBox"}
    [] k = "Frame" -> "box" \in U[1] /\ \A i \in 2..n : "flow" \in U[i]
    [] k \in {"ListBox", "GridFlow"} -> \A i \in 1..n : "flow" \in U[i]
    [] k = "Overlay" -> /\ "box" \in U[2]
                        /\ (o[2] = "pack" => "fixed" \in U[1])
                        /\ (o[2] # "pack" /\ o[4] = "pack" => "flow" \in U[1])
                        /\ (o[2] # "pack" /\ o[4] # "pack" => "box" \in U[1])
    [] k = "Pile" -> /\ Len(o[2]) = n
                     /\ \A i \in 1..n : /\ PileItemModes(o[2][i], S[i]) # {}
                                        /\ (o[2][i][1] = "given" => "box" \in U[i])
    [] k = "Columns" -> /\ Len(o[4]) = n
                        /\ \A i \in 1..n : /\ ColItemModes(o[4][i], S[i]) # {}
                                           /\ (o[4][i][3] = 1 => "box" \in U[i])
                                           /\ (o[4][i][1] = "pack" => o[4][i][3] = 0)
                        /\ (n > 0 => ColumnsDetermined(o, n, S))       \* otherwise urwid warns and falls back to BOX|FLOW
    [] OTHER -> TRUE

\* U[i]: usable modes of child i
UsableOf(k, o, n, S, U, sz) ==
  {m \in sz :
     /\ \A i \in 1..n : LET cm == ChildModesOf(k, o, i, m) IN "none" \in cm \/ cm \cap U[i] # {}
     \* a box Pile shares the rows left over among its WEIGHT items: if there are any, one must have a positive weight
     \* (the constructor note "there must be at least one 'weight' tuple" is stricter than urwid: GIVEN/PACK-only piles are padded or trimmed)
     /\ (k = "Pile" /\ m = "box" /\ (\E i \in 1..n : o[2][i][1] = "weight") => \E i \in 1..n : o[2][i][1] = "weight" /\ o[2][i][2] > 0)
     /\ (k = "Pile" /\ m = "fixed" => \E i \in 1..n : o[2][i][1] # "given" /\ "fixed" \in U[i])
     /\ (k = "Columns" /\ m = "fixed" /\ n > 0 => \E i \in 1..n : o[4][i][3] = 0)}      \* some column must provide the height

Mk(k, o, c) ==
  LET n == Len(c)
      S == [i \in 1..n |-> c[i].s]
      U == [i \in 1..n |-> c[i].u]
      KK == [i \in 1..n |-> c[i].k]
      sz == SizingOf(k, o, n, S)
  IN [k |-> k, o |-> o, c |-> c, s |-> sz, u |-> UsableOf(k, o, n, S, U, sz),
      a |-> ArgsOKOf(k, o, n, S, U, KK) /\ \A i \in 1..n : c[i].a /\ c[i].s = c[i].u,     \* only the whole term may over-claim
      d |-> IF k \in LeafKinds THEN 0 ELSE IF n = 0 THEN 1 ELSE 1 + MaxOf({c[i].d : i \in 1..n}),
      n |-> 1 + SumSeq([i \in 1..n |-> c[i].n])]

RECURSIVE Ann(_)
Ann(t) == Mk(t.k, t.o, [i \in 1..Len(t.c) |-> Ann(t.c[i])])

Sizing(t) == t.s
\* a term is worth building when its arguments (and its children's) are legal and at least one advertised mode is usable
WellFormed(t) == t.a /\ t.u # {}
\* the modes a term advertises although some child cannot be used that way (urwid documents sizing() as an
\* over-approximation: "is not sufficient to know that using that sizing mode will work")
OverClaimed(t) == t.s \ t.u

(* ---- how a Columns shares out the width it is given (C01) --------------------------------- *)
\* What the constructor documentation fixes, as a predicate over the widths the implementation really used
\* (w[i]: the columns of the canvas child i was rendered to, 0 = child i is not shown): the shown columns and the
\* `dividechars` blanks between them fit into the width given; a shown GIVEN column has its given width; a shown WEIGHT
\* column is at least `min_width` wide.  How the rest is divided among the weights is left to the implementation
\* (spec/WidgetTree.tla holds a reference share-out that satisfies this predicate and a wrong one that does not).
ShownCols(w) == {i \in 1..Len(w) : w[i] > 0}
ColumnsFit(dc, w, maxcol) == LET n == Cardinality(ShownCols(w)) IN SumSeq(w) + dc * (IF n > 0 THEN n - 1 ELSE 0) <= maxcol
ColumnsLayoutOK(o, w, maxcol) ==
  /\ Len(w) = Len(o[4])
  /\ ColumnsFit(o[1], w, maxcol)
  /\ \A i \in ShownCols(w) : /\ (o[4][i][1] = "given" => w[i] = o[4][i][2])
                             /\ (o[4][i][1] = "weight" => w[i] >= o[2])

(* ---- geometry (C09): rectangles of painted ids in a grid ---------------------------------- *)
\* grid: sequence of rows, each a sequence of ids (0 = nothing identifiable painted)
GridRows(g) == Len(g)
GridCols(g) == IF Len(g) = 0 THEN 0 ELSE Len(g[1])
Cells(g, id) == {xy \in (0..GridCols(g) - 1) \X (0..GridRows(g) - 1) : g[xy[2] + 1][xy[1] + 1] = id}
OriginX(g, id) == MinOf({c[1] : c \in Cells(g, id)})
OriginY(g, id) == MinOf({c[2] : c \in Cells(g, id)})
\* painted as one full rectangle of exactly w x h cells
PaintedFull(g, id, w, h) ==
  LET cs == Cells(g, id) IN
  /\ cs # {} /\ Cardinality(cs) = w * h
  /\ MaxOf({c[1] : c \in cs}) - OriginX(g, id) + 1 = w
  /\ MaxOf({c[2] : c \in cs}) - OriginY(g, id) + 1 = h
=============================================================================
