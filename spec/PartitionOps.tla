----------------------------- MODULE PartitionOps -----------------------------
(* C19: containers partition the available space exactly and proportionally.                  *)
(* The contract is a set of RELATIONS between a configuration and the sizes an                 *)
(* implementation assigned, one operator per sentence of the property, written from the       *)
(* property statement (not from urwid's algorithms), plus deterministic reference             *)
(* allocators that are used only to show (Partition.tla) that the relations are satisfiable.  *)
(*                                                                                             *)
(* Conventions.  A column / row option is a record [k, a, b]: k in "given" | "pack" |         *)
(* "weight"; for "weight" the weight is the rational a/b (b >= 1); `own` is a parallel         *)
(* sequence with the column's own size (given amount, or what the packed child reports;       *)
(* 0 for weighted ones).  Assigned widths are a sequence that may be SHORTER than the option  *)
(* list: columns left out at the end are hidden (width 0).  Percentages are integers.         *)
(* Where the property text leaves a choice, the weaker reading is the clause and the          *)
(* stronger one is an operator named Strong... (reported as DIVERGENCE only).                 *)
EXTENDS Integers, Sequences, FiniteSets, TLC

Min2(a, b) == IF a < b THEN a ELSE b
Max2(a, b) == IF a > b THEN a ELSE b
Abs(a) == IF a < 0 THEN 0 - a ELSE a
IsNat(x) == x \in Int /\ x >= 0

\* sum of f(i) for i in 1..n (f is a TLA+ function or sequence)
SumTo(f, n) == LET S[i \in 0..n] == IF i = 0 THEN 0 ELSE S[i - 1] + f[i] IN S[n]
SumSeq(s) == SumTo(s, Len(s))
ProdTo(f, n) == LET S[i \in 0..n] == IF i = 0 THEN 1 ELSE S[i - 1] * f[i] IN S[n]

IsStatic(o) == o.k \in {"given", "pack"}
IsWeighted(o) == o.k = "weight"

\* width of column i in a possibly shortened list
W(w, i) == IF i <= Len(w) THEN w[i] ELSE 0
Shown(n, w) == {i \in 1..n : W(w, i) > 0}
Total(n, w) == SumTo([i \in 1..n |-> W(w, i)], n)
\* columns used by the visible columns together with the dividers BETWEEN them
Used(n, w, d) == Total(n, w) + d * Max2(0, Cardinality(Shown(n, w)) - 1)

\* weights as integers over the common denominator
Den(opts) == ProdTo([i \in 1..Len(opts) |-> IF IsWeighted(opts[i]) THEN opts[i].b ELSE 1], Len(opts))
WInt(opts, i) == opts[i].a * (Den(opts) \div opts[i].b)
ShownWeighted(opts, w) == {i \in Shown(Len(opts), w) : IsWeighted(opts[i])}
SumOver(S, f) ==
  IF S = {} THEN 0 ELSE LET m == CHOOSE m \in S : \A j \in S : j <= m
                            F[i \in 0..m] == IF i = 0 THEN 0 ELSE F[i - 1] + (IF i \in S THEN f[i] ELSE 0)
                        IN F[m]

\* the statement quantifies over given sizes >= 1 and positive weights (a packed child of width 0 is
\* treated like a zero given size); configurations outside get the clauses that do not depend on it
InStatement(opts, own) ==
  \A i \in 1..Len(opts) : IF IsStatic(opts[i]) THEN own[i] >= 1 ELSE opts[i].a >= 1

(* ------------------------------ Columns ------------------------------------------------- *)
\* "the widths Columns assigns are non-negative integers"
ColNonNegInts(opts, w) == Len(w) <= Len(opts) /\ \A i \in 1..Len(w) : IsNat(w[i])
\* "give each given or packed column either its own size or nothing"
ColOwnSizeOrNothing(opts, own, w) ==
  \A i \in 1..Len(opts) : IsStatic(opts[i]) => W(w, i) \in {0, own[i]}
\* "keep the focus column visible whenever that column alone fits"
\* (alone, a weighted column needs its minimum width)
AloneSize(opts, own, mw, i) == IF IsStatic(opts[i]) THEN own[i] ELSE mw
ColFocusVisible(opts, own, mw, f, avail, w) ==
  LET a == AloneSize(opts, own, mw, f) IN (a >= 1 /\ a <= avail) => W(w, f) > 0
\* "never exceed the available columns together with the dividers between visible columns"
ColNeverExceed(opts, d, avail, w) == Used(Len(opts), w, d) <= avail
\* "fill them exactly when a weighted column is shown"
ColFillExactly(opts, own, d, avail, w) ==
  (InStatement(opts, own) /\ ShownWeighted(opts, w) # {}) => Used(Len(opts), w, d) = avail
StrongColFillExactly(opts, own, d, avail, w) ==          \* also with zero-sized given/packed columns around
  ShownWeighted(opts, w) # {} => Used(Len(opts), w, d) = avail
\* "share what remains among weighted columns in proportion to their weights to within one column
\*  unless the minimum width intervenes": what the shown weighted columns hold together (G) is split so that
\*  every one is within one column of G * weight / total weight.  The minimum width "intervenes" (weak
\*  reading) as soon as some shown weighted column sits at the minimum width.
PropWithinOne(opts, S, G, x) ==
  LET T == SumOver(S, [i \in 1..Len(opts) |-> IF i \in S THEN WInt(opts, i) ELSE 0])
  IN \A i \in S : Abs(x[i] * T - G * WInt(opts, i)) <= T
ColProportional(opts, mw, w) ==
  LET S == ShownWeighted(opts, w)
      x == [i \in 1..Len(opts) |-> W(w, i)]
      G == SumOver(S, x)
  IN (\A i \in S : x[i] > mw /\ opts[i].a >= 1) => PropWithinOne(opts, S, G, x)
\* stronger reading: the minimum width intervenes only when some column's exact share is below it
StrongColProportional(opts, mw, w) ==
  LET S == ShownWeighted(opts, w)
      x == [i \in 1..Len(opts) |-> W(w, i)]
      G == SumOver(S, x)
      T == SumOver(S, [i \in 1..Len(opts) |-> IF i \in S THEN WInt(opts, i) ELSE 0])
  IN (\A i \in S : opts[i].a >= 1 /\ G * WInt(opts, i) >= mw * T) => PropWithinOne(opts, S, G, x)

ColumnWidthsOK(opts, own, d, mw, f, avail, w) ==
  /\ ColNonNegInts(opts, w)
  /\ ColOwnSizeOrNothing(opts, own, w)
  /\ ColFocusVisible(opts, own, mw, f, avail, w)
  /\ ColNeverExceed(opts, d, avail, w)
  /\ ColFillExactly(opts, own, d, avail, w)
  /\ ColProportional(opts, mw, w)

(* ------------------------------ box-sized Pile ------------------------------------------ *)
\* "a box-sized Pile divides its rows the same way": non-negative integers, one per item; given / packed
\* items get their own size (or nothing); the weighted items share exactly what the others leave
\* (nothing when the others already overflow) in proportion to their weights to within one row.
HasPositiveWeight(opts) == \E i \in 1..Len(opts) : IsWeighted(opts[i]) /\ opts[i].a >= 1
PileNonNegInts(opts, r) == Len(r) = Len(opts) /\ \A i \in 1..Len(r) : IsNat(r[i])
PileOwnSizeOrNothing(opts, own, r) == \A i \in 1..Len(opts) : IsStatic(opts[i]) => r[i] \in {0, own[i]}
PileFixed(opts, r) == SumTo([i \in 1..Len(opts) |-> IF IsStatic(opts[i]) THEN r[i] ELSE 0], Len(opts))
PileRemaining(opts, avail, r) == Max2(0, avail - PileFixed(opts, r))
PileWeightedSet(opts) == {i \in 1..Len(opts) : IsWeighted(opts[i])}
PileFillExactly(opts, avail, r) ==
  HasPositiveWeight(opts) => SumOver(PileWeightedSet(opts), r) = PileRemaining(opts, avail, r)
PileProportional(opts, avail, r) ==
  LET S == {i \in PileWeightedSet(opts) : opts[i].a >= 1}
  IN PropWithinOne(opts, S, PileRemaining(opts, avail, r), r)
\* stronger reading of "the same way": never more rows than available (a Pile does not drop items)
StrongPileNeverExceed(opts, avail, r) == SumSeq(r) <= avail

PileRowsOK(opts, own, avail, r) ==
  /\ PileNonNegInts(opts, r)
  /\ PileOwnSizeOrNothing(opts, own, r)
  /\ PileFillExactly(opts, avail, r)
  /\ PileProportional(opts, avail, r)

(* ------------------------------ Padding / Filler / one axis of Overlay ------------------ *)
(* c: [avail, align (0..100), kind "given"|"pack"|"relative"|"clip", amt (columns or percentage),        *)
(*     own (what a packed / fixed child reported when the decoration asked it), min (-1: none),           *)
(*     nat (the natural extent of a packed / fixed child: what it asks for when nothing restricts it;     *)
(*          this - not the answer to whatever the decoration chose to offer - is its requested size),    *)
(*     flex (TRUE for a packed child that takes less when it is offered less, like a text: it CAN be      *)
(*          given "the remaining space"; FALSE for a child whose extent is its own: the rows of a flow    *)
(*          widget under a Filler, a fixed widget),                                                       *)
(*     L, R (fixed margins),                                                                              *)
(*     clip (TRUE when the decoration can clip: negative margins are clipped child cells),               *)
(*     trim (TRUE when it clips by trimming the overflowing child's canvas instead: margins stay >= 0)]   *)
(* The obsolete spellings align=('fixed left'|'fixed right', n), valign=('fixed top'|'fixed bottom', n) denote the same   *)
(* configuration as align='left', left=n etc.: they are recorded as that configuration and held to the same relations.  *)
(* result: l, r (margins), child (extent of the child along the axis)                                     *)
PadBase(c) == Max2(0, c.avail - c.L - c.R)
\* sizes that count as "the requested size"
PadRequested(c) ==
  CASE c.kind = "given" -> {c.amt}
    [] c.kind = "clip" -> {c.nat}
    [] c.kind = "pack" -> {c.nat, Max2(c.nat, c.min)}          \* a minimum may or may not apply to a packed child
    [] c.kind = "relative" ->                                  \* the percentage of what the margins leave, rounded either way
         {Max2(q, c.min) : q \in {q \in 0..(2 * PadBase(c) + 2) : Abs(q * 100 - PadBase(c) * c.amt) < 100}}
    [] OTHER -> {}
PadFits(c, size) == size + c.L + c.R <= c.avail
\* "give their child the requested size when it fits beside the fixed margins and the remaining space otherwise":
\* weak reading of "the remaining space": at least what the margins leave, never more than asked or available
\* ... except for a packed child that shrinks (flex): there nothing forces the decoration to give up its fixed margins,
\* "the remaining space" is what the margins leave (lifted to the minimum size when one is set), never more than asked
\* or available -- packing the child against the whole width and letting it eat the margins is not "the remaining space"
PadRemaining(c, req) == {PadBase(c), Min2(c.avail, Min2(req, Max2(PadBase(c), c.min)))}
PadChildOK(c, child) ==
  \E req \in PadRequested(c) :
    IF PadFits(c, req) \/ c.clip THEN child = req
    ELSE IF c.flex THEN child \in PadRemaining(c, req)
    ELSE child >= PadBase(c) /\ child <= Min2(req, c.avail)
StrongPadChildOK(c, child) ==                                   \* literal reading: exactly what the margins leave
  \E req \in PadRequested(c) : child = IF PadFits(c, req) \/ c.clip THEN req ELSE PadBase(c)
\* "position it so that margins plus child exactly fill the available space"
PadFill(c, l, r, child) ==
  \/ l + child + r = c.avail
  \* a decoration that does not clip through negative margins but lets the child overflow and trims its canvas (a Filler
  \* around a flow child higher than everything): no margins.  One that clips through its margins (Padding width='clip',
  \* both axes of an Overlay around a fixed top widget) is held to the sentence as written: negative margins count
  \/ c.clip /\ c.trim /\ child > c.avail /\ l = 0 /\ r = 0
\* "split the spare space according to the alignment percentage to within rounding"
PadAlign(c, l, r, child) ==
  PadFits(c, child) =>
    LET spare == c.avail - c.L - c.R - child
    IN l >= c.L /\ r >= c.R /\ Abs((l - c.L) * 100 - spare * c.align) < 100
\* "no child is ever handed a negative dimension" (margins of a non-clipping decoration are dimensions too)
PadNoNegative(c, l, r, child) == child >= 0 /\ (~c.clip => l >= 0 /\ r >= 0)

PadOK(c, l, r, child) ==
  PadNoNegative(c, l, r, child) /\ PadChildOK(c, child) /\ PadFill(c, l, r, child) /\ PadAlign(c, l, r, child)
FillOK(c, t, b, child) == PadOK(c, t, b, child)                \* Filler: the same relation on the vertical axis
OverlayOK(ch, l, r, cw, cv, t, b, chh) == PadOK(ch, l, r, cw) /\ PadOK(cv, t, b, chh)

(* ------------------------------ GridFlow ------------------------------------------------- *)
\* cells i = 1..n: cols[i] columns wide, painted with its left top corner at (xs[i], ys[i]); -1 = not shown
GridShown(n, avail, cols, xs, ys) == \A i \in 1..n : xs[i] >= 0 /\ ys[i] >= 0 /\ xs[i] + cols[i] <= avail
\* "shows every cell at the configured cell width" (weak: when a cell fits into the line at all)
GridCellWidth(n, cw, avail, cols) == cw <= avail => \A i \in 1..n : cols[i] = cw
StrongGridCellWidth(n, cw, avail, cols) == \A i \in 1..n : cols[i] = cw
\* "in reading order": left to right, then top to bottom, in contents order, no overlap
GridReadingOrder(n, cols, xs, ys) ==
  \A i \in 1..n : \A j \in (i + 1)..n : ys[i] < ys[j] \/ (ys[i] = ys[j] /\ xs[i] + cols[i] <= xs[j])
GridOK(n, cw, avail, cols, xs, ys) ==
  GridShown(n, avail, cols, xs, ys) /\ GridCellWidth(n, cw, avail, cols) /\ GridReadingOrder(n, cols, xs, ys)

(* ------------------------------ reference allocators (satisfiability only) --------------- *)
\* largest-remainder split of G among the members of S by integer weights wt (all > 0)
LRShare(S, wt, G) ==
  LET T == SumOver(S, wt)
      fl == [i \in DOMAIN wt |-> IF i \in S THEN (G * wt[i]) \div T ELSE 0]
      fr == [i \in DOMAIN wt |-> IF i \in S THEN (G * wt[i]) % T ELSE 0]
      left == G - SumOver(S, fl)
      rank == [i \in DOMAIN wt |-> Cardinality({j \in S : fr[j] > fr[i] \/ (fr[j] = fr[i] /\ j < i)})]
  IN [i \in DOMAIN wt |-> IF i \in S THEN fl[i] + (IF rank[i] < left THEN 1 ELSE 0) ELSE 0]

\* visible set: the focus column if it fits alone, then neighbours to the right, then to the left, while they fit
RefNeed(opts, own, d, mw, S) ==
  SumOver(S, [i \in 1..Len(opts) |-> AloneSize(opts, own, mw, i)]) + d * Max2(0, Cardinality(S) - 1)
RECURSIVE RefGrow(_, _, _, _, _, _, _)
RefGrow(opts, own, d, mw, avail, order, S) ==
  IF order = <<>> THEN S
  ELSE LET i == Head(order)
           S2 == S \cup {i}
           take == AloneSize(opts, own, mw, i) >= 1 /\ RefNeed(opts, own, d, mw, S2) <= avail
       IN RefGrow(opts, own, d, mw, avail, Tail(order), IF take THEN S2 ELSE S)
RefOrder(n, f) == <<f>> \o [k \in 1..(n - f) |-> f + k] \o [k \in 1..(f - 1) |-> f - k]
RefColumns(opts, own, d, mw, f, avail) ==
  LET n == Len(opts)
      S == RefGrow(opts, own, d, mw, avail, RefOrder(n, f), {})
      WS == {i \in S : IsWeighted(opts[i])}
      stat == SumOver(S \ WS, own)
      G == avail - stat - d * Max2(0, Cardinality(S) - 1)
      wt == [i \in 1..n |-> IF i \in WS THEN WInt(opts, i) ELSE 0]
      first == IF WS = {} THEN 0 ELSE CHOOSE i \in WS : \A j \in WS : i <= j
      even == [i \in 1..n |-> IF i \notin WS THEN 0 ELSE IF i = first THEN G - mw * (Cardinality(WS) - 1) ELSE mw]
      share == IF WS = {} \/ \E i \in WS : wt[i] = 0 THEN even
               ELSE LET sh == LRShare(WS, wt, G) IN IF \E i \in WS : sh[i] < mw THEN even ELSE sh
  IN [i \in 1..n |-> IF i \notin S THEN 0 ELSE IF i \in WS THEN share[i] ELSE own[i]]

RefPile(opts, own, avail) ==
  LET n == Len(opts)
      WS == {i \in 1..n : IsWeighted(opts[i]) /\ opts[i].a >= 1}
      fixed == SumOver({i \in 1..n : IsStatic(opts[i])}, own)
      wt == [i \in 1..n |-> IF i \in WS THEN WInt(opts, i) ELSE 0]
      sh == LRShare(WS, wt, Max2(0, avail - fixed))
  IN [i \in 1..n |-> IF IsStatic(opts[i]) THEN own[i] ELSE sh[i]]

RefPadReq(c) ==
  CASE c.kind = "given" -> c.amt
    [] c.kind = "relative" -> Max2((PadBase(c) * c.amt + 50) \div 100, c.min)
    [] OTHER -> c.nat
RefPad(c) ==       \* <<l, r, child>>
  LET req == RefPadReq(c) IN
  IF PadFits(c, req)
  THEN LET spare == c.avail - c.L - c.R - req
           el == (spare * c.align + 50) \div 100
       IN <<c.L + el, c.avail - req - c.L - el, req>>
  ELSE IF c.clip
  THEN LET l == Min2(c.L, Max2(0, c.avail - req)) IN <<l, c.avail - req - l, req>>
  ELSE LET child == IF c.flex THEN Min2(c.avail, Min2(req, Max2(PadBase(c), c.min))) ELSE Min2(req, c.avail)
           l == Min2(c.L, c.avail - child)
       IN <<l, c.avail - child - l, child>>

RefGridPerRow(cw, hsep, avail) == Max2(1, (avail + hsep) \div (Min2(cw, avail) + hsep))
RefGridCols(n, cw, avail) == [i \in 1..n |-> Min2(cw, avail)]
RefGridXs(n, cw, hsep, avail) == [i \in 1..n |-> ((i - 1) % RefGridPerRow(cw, hsep, avail)) * (Min2(cw, avail) + hsep)]
RefGridYs(n, cw, hsep, vsep, avail) == [i \in 1..n |-> ((i - 1) \div RefGridPerRow(cw, hsep, avail)) * (1 + vsep)]

(* ------------------------------ deliberately wrong allocators (must be refuted) ----------- *)
\* forgets the dividers when deciding what fits
WrongColumnsNoDividers(opts, own, mw, f, avail) == RefColumns(opts, own, 0, mw, f, avail)
\* rounds every share down and leaves the rest unused
WrongColumnsFloor(opts, own, d, mw, f, avail) ==
  LET n == Len(opts)
      ref == RefColumns(opts, own, d, mw, f, avail)
      S == {i \in 1..n : ref[i] > 0 /\ IsWeighted(opts[i])}
      G == SumOver(S, ref)
      T == SumOver(S, [i \in 1..n |-> IF i \in S THEN WInt(opts, i) ELSE 0])
  IN [i \in 1..n |-> IF i \in S /\ T > 0 THEN Max2(mw, (G * WInt(opts, i)) \div T) ELSE ref[i]]
\* ignores the focus: fills from the left
WrongColumnsFromLeft(opts, own, d, mw, avail) == RefColumns(opts, own, d, mw, 1, avail)
\* equal shares whatever the weights
WrongPileEqual(opts, own, avail) ==
  RefPile([i \in 1..Len(opts) |-> IF IsWeighted(opts[i]) THEN [k |-> "weight", a |-> 1, b |-> 1] ELSE opts[i]], own, avail)
\* alignment percentage applied to the wrong side
WrongPadMirror(c) == LET p == RefPad([c EXCEPT !.align = 100 - c.align]) IN p
\* fixed margins ignored when deciding whether the child fits
WrongPadNoMargins(c) == LET p == RefPad([c EXCEPT !.L = 0, !.R = 0]) IN p
\* minimum size ignored
WrongPadNoMin(c) == RefPad([c EXCEPT !.min = -1])
\* a decoration that clips through its margins but floors them at zero (width kind "given" handed on where "clip" is meant):
\* a child wider than everything is no longer clipped, margins plus child exceed the space
WrongPadNoClip(c) == LET p == RefPad(c) IN <<Max2(0, p[1]), Max2(0, p[2]), p[3]>>
\* a shrinking packed child is packed against the whole width: the fixed margins are only taken off afterwards, so a child
\* that does not fit beside them is handed more than the remaining space and the margins are eaten
WrongPadPackWhole(c) ==
  IF c.kind = "pack" /\ c.flex
  THEN RefPad([c EXCEPT !.kind = "given", !.amt = Min2(c.nat, Max2(c.avail, c.min)), !.flex = FALSE])
  ELSE RefPad(c)
================================================================================
