------------------------------ MODULE Terminal ------------------------------
(* Reference VT100/xterm terminal as pure operators over a terminal record.               *)
(* Shared oracle of C04 (what urwid's output paints), C12 (mode restoration), C15         *)
(* (reference for urwid's own emulator) and C17 (SGR decoding).  Semantic decisions are    *)
(* listed in DESIGN.md Appendix E.  Coordinates are 0-based; grid[y+1][x+1].               *)
(* A cell is [c, fg, bg, fl, p]: c = code point, fg/bg = colour (-1 default, 0..15 basic,  *)
(* 1000+n indexed, 2^24+rgb true colour), fl = set of SGR flags {1,3,4,5,7,9},             *)
(* p = 0 normal | 1 left half of a wide glyph | 2 right half.                              *)
EXTENDS Integers, Sequences, FiniteSets, TLC

Min2(a, b) == IF a < b THEN a ELSE b
Max2(a, b) == IF a > b THEN a ELSE b

DefaultPen == [fg |-> -1, bg |-> -1, fl |-> {}]
Blank(bg) == [c |-> 32, fg |-> -1, bg |-> bg, fl |-> {}, p |-> 0]
BlankRow(w, bg) == [x \in 1..w |-> Blank(bg)]

NewTerm(w, h) ==
  [w |-> w, h |-> h, grid |-> [y \in 1..h |-> BlankRow(w, -1)],
   cx |-> 0, cy |-> 0, pend |-> FALSE, pen |-> DefaultPen,
   irm |-> FALSE, wrap |-> TRUE, g0 |-> "B", g1 |-> "B", shift |-> 0,
   curs |-> TRUE, modes |-> {}, top |-> 0, bot |-> h - 1,
   scrolled |-> FALSE, sb |-> <<>>]

\* DEC special graphics: byte under the line-drawing set -> the glyph it shows
DecGlyph == 95 :> 9646 @@ 96 :> 9670 @@ 97 :> 9618 @@ 98 :> 9225 @@ 99 :> 9228 @@ 100 :> 9229 @@ 101 :> 9226 @@ 102 :> 176 @@ 103 :> 177 @@ 104 :> 9252 @@ 105 :> 9227 @@ 106 :> 9496 @@ 107 :> 9488 @@ 108 :> 9484 @@ 109 :> 9492 @@ 110 :> 9532 @@ 111 :> 9146 @@ 112 :> 9147 @@ 113 :> 9472 @@ 114 :> 9148 @@ 115 :> 9149 @@ 116 :> 9500 @@ 117 :> 9508 @@ 118 :> 9524 @@ 119 :> 9516 @@ 120 :> 9474 @@ 121 :> 8804 @@ 122 :> 8805 @@ 123 :> 960 @@ 124 :> 8800 @@ 125 :> 163 @@ 126 :> 183
ActiveSet(t) == IF t.shift = 0 THEN t.g0 ELSE t.g1
Glyph(t, c) == IF ActiveSet(t) = "0" /\ c \in DOMAIN DecGlyph THEN DecGlyph[c] ELSE c

(* ---- scrolling ---- *)
ScrollUp(t) ==      \* region top..bot moves up one line; the line leaving the top of the screen goes to scrollback
  LET g == t.grid IN
  [t EXCEPT !.grid = [y \in 1..t.h |->
                        IF y - 1 < t.top \/ y - 1 > t.bot THEN g[y]
                        ELSE IF y - 1 = t.bot THEN BlankRow(t.w, t.pen.bg) ELSE g[y + 1]],
            !.scrolled = TRUE,
            !.sb = IF t.top = 0 THEN Append(@, g[1]) ELSE @]
ScrollDown(t) ==
  LET g == t.grid IN
  [t EXCEPT !.grid = [y \in 1..t.h |->
                        IF y - 1 < t.top \/ y - 1 > t.bot THEN g[y]
                        ELSE IF y - 1 = t.top THEN BlankRow(t.w, t.pen.bg) ELSE g[y - 1]],
            !.scrolled = TRUE]

Index(t) ==         \* LF / IND: down one line, scrolling at the bottom of the region
  IF t.cy = t.bot THEN [ScrollUp(t) EXCEPT !.pend = FALSE]
  ELSE [t EXCEPT !.cy = Min2(t.cy + 1, t.h - 1), !.pend = FALSE]
RevIndex(t) ==
  IF t.cy = t.top THEN [ScrollDown(t) EXCEPT !.pend = FALSE]
  ELSE [t EXCEPT !.cy = Max2(t.cy - 1, 0), !.pend = FALSE]
WrapLine(t) == [Index(t) EXCEPT !.cx = 0]

(* ---- writing one glyph of width w (1 or 2) ---- *)
\* repair wide glyphs whose other half has just been overwritten / cut
Heal(row, W) ==
  [x \in 1..W |->
     IF row[x].p = 1 /\ (x = W \/ row[x + 1].p # 2) THEN [row[x] EXCEPT !.c = 32, !.p = 0]
     ELSE IF row[x].p = 2 /\ (x = 1 \/ row[x - 1].p # 1) THEN [row[x] EXCEPT !.c = 32, !.p = 0]
     ELSE row[x]]

GlyphCells(t, c, w) ==
  LET base == [c |-> Glyph(t, c), fg |-> t.pen.fg, bg |-> t.pen.bg, fl |-> t.pen.fl, p |-> 0]
  IN IF w = 2 THEN <<[base EXCEPT !.p = 1], [base EXCEPT !.p = 2]>> ELSE <<base>>

PlaceRow(t, row, cells) ==
  LET W == t.w  x0 == t.cx  n == Len(cells)
      raw == IF t.irm
             THEN [x \in 1..W |-> IF x - 1 < x0 THEN row[x]
                                   ELSE IF x - 1 < x0 + n THEN cells[x - x0]
                                   ELSE row[x - n]]
             ELSE [x \in 1..W |-> IF x - 1 >= x0 /\ x - 1 < x0 + n THEN cells[x - x0] ELSE row[x]]
      \* in insert mode a wide glyph that was split at the insertion point is broken too
      pre == IF t.irm /\ x0 > 0 /\ row[x0 + 1].p = 2
             THEN [raw EXCEPT ![x0] = [@ EXCEPT !.c = 32, !.p = 0],
                              ![Min2(x0 + n + 1, W)] = IF x0 + n + 1 <= W THEN [@ EXCEPT !.c = 32, !.p = 0] ELSE @]
             ELSE raw
  IN Heal(pre, W)

Put(t, c, w) ==
  IF w > t.w THEN t ELSE
  LET t1 == IF t.pend /\ t.wrap THEN WrapLine(t) ELSE t
      t2 == IF t1.cx + w > t1.w THEN (IF t1.wrap THEN WrapLine(t1) ELSE [t1 EXCEPT !.cx = t1.w - w]) ELSE t1
      row == PlaceRow(t2, t2.grid[t2.cy + 1], GlyphCells(t2, c, w))
      t3 == [t2 EXCEPT !.grid[t2.cy + 1] = row]
  IN IF t3.cx + w >= t3.w THEN [t3 EXCEPT !.cx = t3.w - 1, !.pend = TRUE]
     ELSE [t3 EXCEPT !.cx = t3.cx + w, !.pend = FALSE]

\* a zero-width (combining) character joins the previous glyph: no cell changes position
PutZero(t, c) == t

(* ---- cursor ---- *)
CUP(t, x, y) == [t EXCEPT !.cx = Min2(Max2(x, 0), t.w - 1), !.cy = Min2(Max2(y, 0), t.h - 1), !.pend = FALSE]
CR(t) == [t EXCEPT !.cx = 0, !.pend = FALSE]
BS(t) == [t EXCEPT !.cx = Max2(t.cx - 1, 0), !.pend = FALSE]
CUU(t, n) == [t EXCEPT !.cy = Max2(t.cy - n, IF t.cy >= t.top THEN t.top ELSE 0), !.pend = FALSE]
CUD(t, n) == [t EXCEPT !.cy = Min2(t.cy + n, IF t.cy <= t.bot THEN t.bot ELSE t.h - 1), !.pend = FALSE]
CUF(t, n) == [t EXCEPT !.cx = Min2(t.cx + n, t.w - 1), !.pend = FALSE]
CUB(t, n) == [t EXCEPT !.cx = Max2(t.cx - n, 0), !.pend = FALSE]

(* ---- erasing (blanks carry the current background) ---- *)
EraseCols(t, y, a, b) ==   \* columns a..b (0-based, inclusive) of row y
  [t EXCEPT !.grid[y + 1] = Heal([x \in 1..t.w |-> IF x - 1 >= a /\ x - 1 <= b THEN Blank(t.pen.bg) ELSE @[x]], t.w)]
EL(t, n) == CASE n = 0 -> EraseCols(t, t.cy, t.cx, t.w - 1)
              [] n = 1 -> EraseCols(t, t.cy, 0, t.cx)
              [] n = 2 -> EraseCols(t, t.cy, 0, t.w - 1)
              [] OTHER -> t
EraseRows(t, a, b) == [t EXCEPT !.grid = [y \in 1..t.h |-> IF y - 1 >= a /\ y - 1 <= b THEN BlankRow(t.w, t.pen.bg) ELSE @[y]]]
ED(t, n) == CASE n = 0 -> EraseRows(EL(t, 0), t.cy + 1, t.h - 1)
              [] n = 1 -> EraseRows(EL(t, 1), 0, t.cy - 1)
              [] n = 2 -> EraseRows(t, 0, t.h - 1)
              [] OTHER -> t
ECH(t, n) == EraseCols(t, t.cy, t.cx, Min2(t.cx + Max2(n, 1) - 1, t.w - 1))

(* ---- insert / delete characters and lines ---- *)
ICH(t, n0) ==
  LET n == Min2(Max2(n0, 1), t.w - t.cx)  row == t.grid[t.cy + 1]
  IN [t EXCEPT !.grid[t.cy + 1] = Heal([x \in 1..t.w |-> IF x - 1 < t.cx THEN row[x]
                                                       ELSE IF x - 1 < t.cx + n THEN Blank(t.pen.bg) ELSE row[x - n]], t.w),
               !.pend = FALSE]
DCH(t, n0) ==
  LET n == Min2(Max2(n0, 1), t.w - t.cx)  row == t.grid[t.cy + 1]
  IN [t EXCEPT !.grid[t.cy + 1] = Heal([x \in 1..t.w |-> IF x - 1 < t.cx THEN row[x]
                                                       ELSE IF x + n <= t.w THEN row[x + n] ELSE Blank(t.pen.bg)], t.w),
               !.pend = FALSE]
InRegion(t) == t.cy >= t.top /\ t.cy <= t.bot
IL(t, n0) ==
  IF ~InRegion(t) THEN t ELSE
  LET n == Min2(Max2(n0, 1), t.bot - t.cy + 1)  g == t.grid
  IN [t EXCEPT !.grid = [y \in 1..t.h |-> IF y - 1 < t.cy \/ y - 1 > t.bot THEN g[y]
                                          ELSE IF y - 1 < t.cy + n THEN BlankRow(t.w, t.pen.bg) ELSE g[y - n]],
               !.cx = 0, !.pend = FALSE]
DL(t, n0) ==
  IF ~InRegion(t) THEN t ELSE
  LET n == Min2(Max2(n0, 1), t.bot - t.cy + 1)  g == t.grid
  IN [t EXCEPT !.grid = [y \in 1..t.h |-> IF y - 1 < t.cy \/ y - 1 > t.bot THEN g[y]
                                          ELSE IF y - 1 + n <= t.bot THEN g[y + n] ELSE BlankRow(t.w, t.pen.bg)],
               !.cx = 0, !.pend = FALSE]
DECSTBM(t, a, b) ==    \* 1-based parameters, 0 = default
  LET top == (IF a = 0 THEN 1 ELSE a) - 1
      bot == (IF b = 0 \/ b > t.h THEN t.h ELSE b) - 1
  IN IF top < bot THEN [t EXCEPT !.top = top, !.bot = bot, !.cx = 0, !.cy = 0, !.pend = FALSE] ELSE t

(* ---- SGR ---- *)
FlagCodes == {1, 3, 4, 5, 7, 9}
ResetFor(n) == CASE n = 22 -> {1} [] n = 23 -> {3} [] n = 24 -> {4} [] n = 25 -> {5} [] n = 27 -> {7} [] n = 29 -> {9} [] OTHER -> {}
TrueColour(r, g, b) == 16777216 + r * 65536 + g * 256 + b
RECURSIVE SgrFrom(_, _, _)
SgrFrom(pen, ps, i) ==
  IF i > Len(ps) THEN pen ELSE
  LET n == ps[i] IN
  IF n = 0 THEN SgrFrom(DefaultPen, ps, i + 1)
  ELSE IF n \in FlagCodes THEN SgrFrom([pen EXCEPT !.fl = @ \cup {n}], ps, i + 1)
  ELSE IF n \in 22..29 THEN SgrFrom([pen EXCEPT !.fl = @ \ ResetFor(n)], ps, i + 1)
  ELSE IF n \in 30..37 THEN SgrFrom([pen EXCEPT !.fg = n - 30], ps, i + 1)
  ELSE IF n \in 40..47 THEN SgrFrom([pen EXCEPT !.bg = n - 40], ps, i + 1)
  ELSE IF n \in 90..97 THEN SgrFrom([pen EXCEPT !.fg = n - 90 + 8], ps, i + 1)
  ELSE IF n \in 100..107 THEN SgrFrom([pen EXCEPT !.bg = n - 100 + 8], ps, i + 1)
  ELSE IF n = 39 THEN SgrFrom([pen EXCEPT !.fg = -1], ps, i + 1)
  ELSE IF n = 49 THEN SgrFrom([pen EXCEPT !.bg = -1], ps, i + 1)
  \* an extended colour selector consumes its parameters; one that names no colour (index or component above 255) selects nothing
  ELSE IF n \in {38, 48} /\ i + 2 <= Len(ps) /\ ps[i + 1] = 5
       THEN SgrFrom(IF ps[i + 2] > 255 THEN pen
                    ELSE IF n = 38 THEN [pen EXCEPT !.fg = 1000 + ps[i + 2]] ELSE [pen EXCEPT !.bg = 1000 + ps[i + 2]], ps, i + 3)
  ELSE IF n \in {38, 48} /\ i + 4 <= Len(ps) /\ ps[i + 1] = 2
       THEN SgrFrom(IF ps[i + 2] > 255 \/ ps[i + 3] > 255 \/ ps[i + 4] > 255 THEN pen
                    ELSE IF n = 38 THEN [pen EXCEPT !.fg = TrueColour(ps[i + 2], ps[i + 3], ps[i + 4])]
                              ELSE [pen EXCEPT !.bg = TrueColour(ps[i + 2], ps[i + 3], ps[i + 4])], ps, i + 5)
  ELSE SgrFrom(pen, ps, i + 1)
SGR(t, ps) == [t EXCEPT !.pen = SgrFrom(t.pen, IF ps = <<>> THEN <<0>> ELSE ps, 1)]

(* ---- modes and charsets ---- *)
SetIRM(t, on) == [t EXCEPT !.irm = on]
ShiftOut(t) == [t EXCEPT !.shift = 1]
ShiftIn(t) == [t EXCEPT !.shift = 0]
Designate(t, g, set) == IF g = 0 THEN [t EXCEPT !.g0 = set] ELSE [t EXCEPT !.g1 = set]
DecSet(t, n, on) ==
  CASE n = 25 -> [t EXCEPT !.curs = on]
    [] n = 7  -> [t EXCEPT !.wrap = on]
    [] OTHER  -> [t EXCEPT !.modes = IF on THEN @ \cup {n} ELSE @ \ {n}]

Resize(t, w, h) ==
  [t EXCEPT !.w = w, !.h = h,
            !.grid = [y \in 1..h |-> [x \in 1..w |-> IF y <= t.h /\ x <= t.w THEN t.grid[y][x] ELSE Blank(-1)]],
            !.cx = Min2(t.cx, w - 1), !.cy = Min2(t.cy, h - 1), !.pend = FALSE, !.top = 0, !.bot = h - 1]

(* ---- well-formedness of a terminal state ---- *)
WellFormed(t) ==
  /\ t.cx >= 0 /\ t.cx < t.w /\ t.cy >= 0 /\ t.cy < t.h
  /\ (t.pend => t.cx = t.w - 1)
  /\ t.top >= 0 /\ t.top <= t.bot /\ t.bot < t.h
  /\ \A y \in 1..t.h : \A x \in 1..t.w :
        /\ (t.grid[y][x].p = 1 => x < t.w /\ t.grid[y][x + 1].p = 2)
        /\ (t.grid[y][x].p = 2 => x > 1 /\ t.grid[y][x - 1].p = 1)
=============================================================================
