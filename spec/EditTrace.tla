------------------------------- MODULE EditTrace -------------------------------
(* C10 trace validation: key / click sequences executed on real Edit widgets.                 *)
EXTENDS EditOps, Json, IOUtils

Traces == JsonDeserialize(IOEnv.TRACE_FILE)
VARIABLES tid, l, pref, ok, why
vars == <<tid, l, pref, ok, why>>

Init == tid \in 1..Len(Traces) /\ l = 0 /\ pref = -9 /\ ok = TRUE /\ why = "-"

AllowedOnly(text, allowed, neg) ==
  \A i \in 1..Len(text) : text[i] \in {allowed[j] : j \in 1..Len(allowed)} \/ (neg /\ i = 1 /\ text[i] = 45)

\* e: key, pre = [text, pos, cur, stops], post = [text, pos, cur, rcur (cursor of the focused rendering), stops],
\*    ret (1 = returned unhandled), sig = sequence of [name, arg, cur] signal records, judge (0 = robustness only)
Verdict(tr, e) ==
  IF e.exc # "" THEN "key_never_raises"
  ELSE IF e.post.pos < 0 \/ e.post.pos > Len(e.post.text) THEN "offset_between_0_and_length"
  ELSE IF ~e.post.aligned THEN "offset_never_inside_multibyte_character"
  ELSE IF tr.numeric = 1 THEN (IF ~AllowedOnly(e.post.text, tr.allowed, tr.neg = 1) THEN "numeric_only_allowed_alphabet" ELSE "-")
  ELSE IF e.post.cur # e.post.rcur THEN "cursor_coords_equal_rendered_cursor"
  ELSE IF ~(\E i \in 1..Len(e.post.stops[e.post.cur[2] + 1]) :
              e.post.stops[e.post.cur[2] + 1][i][1] = e.post.pos + tr.caplen /\ e.post.stops[e.post.cur[2] + 1][i][2] = e.post.cur[1])
       THEN "cursor_drawn_in_cell_of_character_at_offset"
  ELSE LET r == Ref([text |-> e.pre.text, pos |-> e.pre.pos, pref |-> pref], e.key, e.pre.cur, e.pre.stops, tr.caplen, tr.opt)
           changed == e.post.text # e.pre.text
       IN IF e.judge = 1 /\ r.text # e.post.text THEN "text_equals_reference_editor"
          ELSE IF e.judge = 1 /\ r.exact /\ r.pos # e.post.pos THEN "offset_equals_reference_editor"
          ELSE IF e.judge = 1 /\ ~r.exact /\ ~(\E i \in 1..Len(e.pre.stops[r.row]) : e.pre.stops[r.row][i][1] = e.post.pos + tr.caplen)
               THEN "cursor_moves_to_the_requested_display_row"
          ELSE IF e.judge = 1 /\ r.handled # (e.ret = 0) THEN "unused_keys_returned_unhandled"
          ELSE IF changed /\ (Len(e.sig) # 2 \/ e.sig[1].name # "change" \/ e.sig[2].name # "postchange") THEN "change_then_postchange"
          ELSE IF changed /\ (e.sig[1].arg # e.post.text \/ e.sig[1].cur # e.pre.text) THEN "change_signalled_with_new_text_before"
          ELSE IF changed /\ (e.sig[2].arg # e.pre.text \/ e.sig[2].cur # e.post.text) THEN "postchange_signalled_with_old_text_after"
          ELSE "-"

Step == /\ ok /\ l < Len(Traces[tid].ev) /\ l' = l + 1 /\ tid' = tid
        /\ LET e == Traces[tid].ev[l + 1]  v == Verdict(Traces[tid], e)
           IN /\ why' = v /\ ok' = (v = "-")
              /\ pref' = IF e.exc # "" \/ Traces[tid].numeric = 1 THEN -9
                         ELSE Ref([text |-> e.pre.text, pos |-> e.pre.pos, pref |-> pref], e.key, e.pre.cur, e.pre.stops, Traces[tid].caplen, Traces[tid].opt).pref
Spec == Init /\ [][Step]_vars
Report == ok \/ PrintT(<<"REJECT", tid, l, why>>)
================================================================================
