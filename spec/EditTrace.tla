------------------------------- MODULE EditTrace -------------------------------
(* C10 trace validation: key / click sequences executed on real Edit widgets.                 *)
(* tr.kind: "edit" (Edit, judged by Ref), "int" (IntEdit, judged by RefInt: digits only,       *)
(* leading zeros left of the cursor dropped) or "num" (IntegerEdit / FloatEdit: alphabet and   *)
(* robustness clauses only).                                                                   *)
EXTENDS EditOps, Json, IOUtils

Traces == JsonDeserialize(IOEnv.TRACE_FILE)
VARIABLES tid, l, pref, ok, why
vars == <<tid, l, pref, ok, why>>

Init == tid \in 1..Len(Traces) /\ l = 0 /\ pref = -9 /\ ok = TRUE /\ why = "-"

AllowedOnly(text, allowed, neg) ==
  \A i \in 1..Len(text) : text[i] \in {allowed[j] : j \in 1..Len(allowed)} \/ (neg /\ i = 1 /\ text[i] = 45)

\* the snapshot before event k of a trace is the one after event k - 1 (tr.init for the first): [text, pos, cur, rcur, stops, aligned]
PreOf(tr, k) == IF k = 1 THEN tr.init ELSE tr.ev[k - 1].post

RefOf(tr, e, pre, pf) == IF tr.kind = "int" THEN RefInt([text |-> pre.text, pos |-> pre.pos, pref |-> pf], e.key, pre.cur, pre.stops, tr.caplen, tr.opt, "trim")
                         ELSE Ref([text |-> pre.text, pos |-> pre.pos, pref |-> pf], e.key, pre.cur, pre.stops, tr.caplen, tr.opt)

\* the signals of one key: (change, postchange) pairs, each 'change' carrying the new text while the widget still holds the old one, each
\* 'postchange' the old text while the widget holds the new one; the pairs lead from the text before the key to the text after it
SignalPairs(sig) == Len(sig) % 2 = 0 /\ \A j \in 1..Len(sig) : sig[j].name = (IF j % 2 = 1 THEN "change" ELSE "postchange")
ChangeCarriesNew(sig, old, new) ==
  /\ sig[1].cur = old /\ sig[Len(sig) - 1].arg = new
  /\ \A j \in 1..(Len(sig) \div 2) : sig[2 * j - 1].arg = sig[2 * j].cur /\ (j > 1 => sig[2 * j - 1].cur = sig[2 * j - 2].cur)
PostchangeCarriesOld(sig, old, new) ==
  /\ sig[2].arg = old /\ sig[Len(sig)].cur = new
  /\ \A j \in 1..(Len(sig) \div 2) : sig[2 * j].arg = sig[2 * j - 1].cur

\* in the inexact case (a column outside every character cell of the target row) the cursor takes an offset of that row that a column
\* can designate: a character cell, the start or the end of the row - not a zero-width character in the middle of the row; a stop of the
\* caption stands for the first offset of the text (the cursor never enters the caption)
RowTargets(row) == {i \in 1..Len(row) : row[i][3] > 0 \/ i = 1 \/ i = EndIdx(row)}
Clamp(p, n) == Min2(Max2(p, 0), n)

\* the integer variant drops zeros after a key (not after a click)
Trims(tr, e) == tr.kind = "int" /\ e.key.k # "click"

\* e: key, post = [text, pos, cur, rcur (cursor of the focused rendering), stops],
\*    ret (1 = returned unhandled), sig = sequence of [name, arg, cur] signal records, judge (0 = robustness only)
Verdict(tr, e, pre) ==
  IF e.exc # "" THEN "key_never_raises"
  ELSE IF e.post.pos < 0 \/ e.post.pos > Len(e.post.text) THEN "offset_between_0_and_length"
  ELSE IF ~e.post.aligned THEN "offset_never_inside_multibyte_character"
  ELSE IF tr.numeric = 1 /\ ~AllowedOnly(e.post.text, tr.allowed, tr.neg = 1) THEN "numeric_only_allowed_alphabet"
  ELSE IF tr.kind = "num" THEN "-"
  ELSE IF ~CursorInside(e.post.cur, tr.w, Len(e.post.stops)) \/ ~CursorInside(e.post.rcur, tr.w, Len(e.post.stops)) THEN "cursor_inside_the_widget"
  ELSE IF e.post.cur # e.post.rcur THEN "cursor_coords_equal_rendered_cursor"
  ELSE IF ~CursorOnStop(e.post.cur, e.post.stops, e.post.pos + tr.caplen) THEN "cursor_drawn_in_cell_of_character_at_offset"
  ELSE LET r == RefOf(tr, e, pre, pref)
           changed == e.post.text # pre.text
           row == pre.stops[r.row]
       IN IF e.judge = 1 /\ (r.exact \/ ~Trims(tr, e)) /\ r.text # e.post.text THEN "text_equals_reference_editor"
          ELSE IF e.judge = 1 /\ r.exact /\ r.pos # e.post.pos THEN "offset_equals_reference_editor"
          ELSE IF e.judge = 1 /\ ~r.exact /\ ~Trims(tr, e) /\ ~(\E i \in RowTargets(row) : Clamp(row[i][1] - tr.caplen, Len(pre.text)) = e.post.pos)
               THEN "cursor_moves_to_the_requested_display_row"
          ELSE IF e.judge = 1 /\ ~r.exact /\ Trims(tr, e)
                  /\ ~(\E i \in RowTargets(row) : LET t == TrimZeros(pre.text, Clamp(row[i][1] - tr.caplen, Len(pre.text)))
                                                 IN t.text = e.post.text /\ t.pos = e.post.pos)
               THEN "cursor_moves_to_the_requested_display_row"
          ELSE IF e.judge = 1 /\ r.handled # (e.ret = 0) THEN "unused_keys_returned_unhandled"
          ELSE IF changed /\ (Len(e.sig) < 2 \/ ~SignalPairs(e.sig) \/ (tr.kind # "int" /\ Len(e.sig) # 2)) THEN "change_then_postchange"
          ELSE IF changed /\ ~ChangeCarriesNew(e.sig, pre.text, e.post.text) THEN "change_signalled_with_new_text_before"
          ELSE IF changed /\ ~PostchangeCarriesOld(e.sig, pre.text, e.post.text) THEN "postchange_signalled_with_old_text_after"
          ELSE "-"

Step == /\ ok /\ l < Len(Traces[tid].ev) /\ l' = l + 1 /\ tid' = tid
        /\ LET tr == Traces[tid]  e == tr.ev[l + 1]  pre == PreOf(tr, l + 1)  v == Verdict(tr, e, pre)
           IN /\ why' = v /\ ok' = (v = "-")
              /\ pref' = IF e.exc # "" \/ tr.kind = "num" THEN -9 ELSE RefOf(tr, e, pre, pref).pref
Spec == Init /\ [][Step]_vars
Report == ok \/ PrintT(<<"REJECT", tid, l, why>>)
================================================================================
