------------------------------- MODULE GridOps -------------------------------
(* C02 -- the plain two-dimensional array of character cells that canvas composition must be  *)
(* equivalent to.  Written from the property statement, not from canvas.py: there are no       *)
(* shards, cviews or run-length lists here, only rows of cells.                                *)
(*                                                                                             *)
(* A grid is a sequence of H rows, each a sequence of W cells.                                 *)
(* Cell = <<glyph, attr, charset, part>>                                                       *)
(*   glyph   base id + 10 * (number of zero-width marks riding on it); base 1 = a, 2 = b,      *)
(*           3 = space, 4 = a double-width glyph.  Marks have no cell of their own: they live  *)
(*           and die with the cell they follow.                                                *)
(*   attr    0 = None (default), 1.. = display attributes                                      *)
(*   charset 0 = None, 1 = "0" (DEC special graphics)                                          *)
(*   part    "n" ordinary cell, "L" / "R" left / right half of a double-width glyph, so half   *)
(*           a character is representable and WellFormed can forbid it.                        *)
EXTENDS Integers, Sequences, FiniteSets

Max(a, b) == IF a >= b THEN a ELSE b
Min(a, b) == IF a <= b THEN a ELSE b

NoAttr == 0
Space == 3
IsWide(g) == g % 10 = 4
Blank(a) == <<Space, a, 0, "n">>          \* what padding and a cut double-width glyph look like
Keep == <<0, 0, 0, "k">>                  \* delta marker: this cell is unchanged from the old canvas

H(g) == Len(g)
W(g) == IF Len(g) = 0 THEN 0 ELSE Len(g[1])
Rect(g) == \A y \in 1..Len(g) : Len(g[y]) = W(g)

BlankRow(w) == [x \in 1..w |-> Blank(NoAttr)]
BlankGrid(w, h) == [y \in 1..h |-> BlankRow(w)]

(* ---- the property's second sentence: no half characters --------------------------------- *)
WellFormed(g) ==
  /\ Rect(g)
  /\ \A y \in 1..H(g) : \A x \in 1..W(g) :
       LET c == g[y][x] IN
         /\ c[4] \in {"n", "L", "R"}
         /\ c[4] = "L" => (x < W(g) /\ g[y][x + 1] = <<c[1], c[2], c[3], "R">>)
         /\ c[4] = "R" => (x > 1 /\ g[y][x - 1] = <<c[1], c[2], c[3], "L">>)
         /\ (c[4] = "n") = ~IsWide(c[1])

(* columns from..to of a row; a double-width glyph with one half outside is replaced by a      *)
(* space carrying the glyph's attribute                                                        *)
CutRow(row, from, to) ==
  [k \in 1..(to - from + 1) |->
     LET c == row[from + k - 1] IN
       IF (k = 1 /\ c[4] = "R") \/ (k = to - from + 1 /\ c[4] = "L") THEN Blank(c[2]) ELSE c]

(* ---- leaves -------------------------------------------------------------------------------- *)
\* a text row is given as clusters <<glyph, attr, charset>>; a double-width cluster takes two cells
RECURSIVE Expand(_)
Expand(cl) ==
  IF cl = <<>> THEN <<>>
  ELSE LET c == Head(cl) IN
       (IF IsWide(c[1]) THEN << <<c[1], c[2], c[3], "L">>, <<c[1], c[2], c[3], "R">> >>
        ELSE << <<c[1], c[2], c[3], "n">> >>) \o Expand(Tail(cl))
RowWidth(cl) == Len(Expand(cl))
\* text canvas: every row padded on the right to maxcol with default-attribute spaces
LeafGrid(rows, maxcol) == [y \in 1..Len(rows) |-> LET e == Expand(rows[y]) IN e \o BlankRow(maxcol - Len(e))]
SolidGrid(glyph, w, h) == [y \in 1..h |-> [x \in 1..w |-> <<glyph, NoAttr, 0, "n">>]]

(* ---- the operations of the property's first sentence ---------------------------------------- *)
Rows(g, a, b) == SubSeq(g, a, b)

RECURSIVE VStack(_)
VStack(gs) == IF gs = <<>> THEN <<>> ELSE Head(gs) \o VStack(Tail(gs))

\* l, r > 0 pad with blank columns, < 0 trim columns
PadTrimLR(g, l, r) ==
  [y \in 1..H(g) |-> BlankRow(Max(0, l)) \o CutRow(g[y], 1 + Max(0, -l), W(g) - Max(0, -r)) \o BlankRow(Max(0, r))]
\* t, b > 0 pad with blank rows, < 0 trim rows
PadTrimTB(g, t, b) ==
  BlankGrid(W(g), Max(0, t)) \o SubSeq(g, 1 + Max(0, -t), H(g) - Max(0, -b)) \o BlankGrid(W(g), Max(0, b))

NoCount == -1
Trim(g, top, count) == SubSeq(g, top + 1, IF count = NoCount THEN H(g) ELSE top + count)
TrimEnd(g, n) == SubSeq(g, 1, H(g) - n)

RECURSIVE RowCat(_, _)
RowCat(gs, y) == IF gs = <<>> THEN <<>> ELSE Head(gs)[y] \o RowCat(Tail(gs), y)
RECURSIVE Tallest(_)
Tallest(gs) == IF gs = <<>> THEN 0 ELSE Max(H(Head(gs)), Tallest(Tail(gs)))
RECURSIVE Sum(_)
Sum(s) == IF s = <<>> THEN 0 ELSE Head(s) + Sum(Tail(s))
\* horizontal join: each grid padded on the right to its given width and at the bottom to the tallest
HJoin(gs, ws) ==
  LET h == Tallest(gs)
      padded == [i \in 1..Len(gs) |-> PadTrimTB(PadTrimLR(gs[i], 0, ws[i] - W(gs[i])), 0, h - H(gs[i]))]
  IN [y \in 1..h |-> RowCat(padded, y)]

\* top laid over bot with its top-left cell at column left, row top (0-based offsets), cell by cell;
\* a double-width glyph of bot with exactly one half under the rectangle loses the other half too
Overlay(bot, top, left, topoff) ==
  [y \in 1..H(bot) |-> [x \in 1..W(bot) |->
     LET iny == y > topoff /\ y <= topoff + H(top) IN
       IF iny /\ x > left /\ x <= left + W(top) THEN top[y - topoff][x - left]
       ELSE LET c == bot[y][x] IN
            IF iny /\ ((x = left /\ c[4] = "L") \/ (x = left + W(top) + 1 /\ c[4] = "R")) THEN Blank(c[2]) ELSE c]]

\* the same result assembled from the other operators (law checked by TLC in Canvas.tla)
OverlayByParts(bot, top, left, topoff) ==
  LET w == W(top)   h == H(top)
      right == W(bot) - left - w
      mid == Rows(bot, topoff + 1, topoff + h)
      lpart == IF left > 0 THEN <<PadTrimLR(mid, 0, -(W(bot) - left))>> ELSE <<>>
      rpart == IF right > 0 THEN <<PadTrimLR(mid, -(left + w), 0)>> ELSE <<>>
      parts == lpart \o <<top>> \o rpart
  IN Rows(bot, 1, topoff) \o HJoin(parts, [i \in 1..Len(parts) |-> W(parts[i])]) \o Rows(bot, topoff + h + 1, H(bot))

\* attribute maps are dictionaries given as a sequence of <<from, to>> pairs with distinct keys
Lookup(m, a) == IF \E i \in 1..Len(m) : m[i][1] = a THEN m[CHOOSE i \in 1..Len(m) : m[i][1] = a][2] ELSE a
MapAttr(g, m) == [y \in 1..H(g) |-> [x \in 1..W(g) |-> LET c == g[y][x] IN <<c[1], Lookup(m, c[2]), c[3], c[4]>>]]
Pairs(p) == [i \in 1..(Len(p) \div 2) |-> <<p[2 * i - 1], p[2 * i]>>]

(* ---- the property's last sentence: row-by-row difference ------------------------------------ *)
Delta(new, old) == [y \in 1..H(new) |-> [x \in 1..W(new) |-> IF new[y][x] = old[y][x] THEN Keep ELSE new[y][x]]]
ApplyDelta(old, d) == [y \in 1..H(d) |-> [x \in 1..Len(d[y]) |-> IF d[y][x] = Keep THEN old[y][x] ELSE d[y][x]]]

(* ---- coordinates (cursor <<x, y>>, pop-up <<x, y, width, height>>; <<>> = none) ------------- *)
Move(c, dx, dy) == IF c = <<>> THEN <<>> ELSE <<c[1] + dx, c[2] + dy>> \o SubSeq(c, 3, Len(c))
Inside(c, w, h) == c # <<>> /\ c[1] >= 0 /\ c[1] < w /\ c[2] >= 0 /\ c[2] < h
Norm(c, w, h) == IF Inside(c, w, h) THEN c ELSE <<>>       \* "inside or dropped"
\* a coordinate whose content left the canvas may be dropped or reported at its translated position
Allowed(c, w, h) == {c, Norm(c, w, h)}

(* ---- the contract of one canvas operation ---------------------------------------------------- *)
(* op = [n, ids, p, leaf, wrap]; vs = the operand values, in the order of op.ids, each a record     *)
(* with at least g (grid), cur, pop.  Result: the grid the property fixes, a reference value for    *)
(* the coordinates and the set of coordinate values the property allows.                            *)
Moved(vs, dx, dy, f(_)) == {Move(f(vs[i]), dx[i], dy[i]) : i \in {j \in 1..Len(vs) : f(vs[j]) # <<>>}}
\* several operands may carry a cursor: the result carries one of them; reference = the last one
LastWith(vs, f(_)) == IF \E i \in 1..Len(vs) : f(vs[i]) # <<>>
                      THEN CHOOSE i \in 1..Len(vs) : f(vs[i]) # <<>> /\ \A j \in (i + 1)..Len(vs) : f(vs[j]) = <<>>
                      ELSE 0
CurOf(v) == v.cur
PopOf(v) == v.pop

NaryCoord(vs, dx, dy, f(_), w, h) ==
  LET i == LastWith(vs, f) IN
    [ref |-> IF i = 0 THEN <<>> ELSE Norm(Move(f(vs[i]), dx[i], dy[i]), w, h),
     ok  |-> IF i = 0 THEN {<<>>} ELSE UNION {Allowed(c, w, h) : c \in Moved(vs, dx, dy, f)}]

UnaryCoord(c, dx, dy, w, h) == [ref |-> Norm(Move(c, dx, dy), w, h), ok |-> Allowed(Move(c, dx, dy), w, h)]
Exactly(c) == [ref |-> c, ok |-> {c}]

Res(g, cur, pop) == [g |-> g, cur |-> cur.ref, pop |-> pop.ref, curok |-> cur.ok, popok |-> pop.ok]

\* running offsets of a join / combine
RECURSIVE Offsets(_, _)
Offsets(sizes, acc) == IF sizes = <<>> THEN <<>> ELSE <<acc>> \o Offsets(Tail(sizes), acc + Head(sizes))
Zeros(n) == [i \in 1..n |-> 0]

OverlayCoord(top, bot, left, topoff, f(_), w, h) ==
  IF f(top) # <<>> THEN UnaryCoord(f(top), left, topoff, w, h)
  ELSE LET c == f(bot)
           covered == c # <<>> /\ c[1] >= left /\ c[1] < left + W(top.g) /\ c[2] >= topoff /\ c[2] < topoff + H(top.g)
       IN [ref |-> IF covered THEN <<>> ELSE Norm(c, w, h), ok |-> Allowed(c, w, h) \cup (IF covered THEN {<<>>} ELSE {})]

OpResult(op, vs) ==
  LET p == op.p
      v == vs[1]
      g == v.g
  IN CASE op.n = "text"  -> LET lg == LeafGrid(op.leaf, p[1])
                                c == IF p[2] < 0 THEN <<>> ELSE <<p[2], p[3]>>
                            IN Res(lg, Exactly(c), Exactly(<<>>))
       [] op.n = "solid" -> Res(SolidGrid(p[1], p[2], p[3]), Exactly(<<>>), Exactly(<<>>))
       [] op.n = "blank" -> Res(BlankGrid(p[1], p[2]), Exactly(<<>>), Exactly(<<>>))
       [] op.n = "wrap"  -> Res(g, Exactly(v.cur), Exactly(v.pop))
       [] op.n = "combine" ->
            LET gs == [i \in 1..Len(vs) |-> vs[i].g]
                dy == Offsets([i \in 1..Len(vs) |-> H(gs[i])], 0)
                ng == VStack(gs)
            IN Res(ng, NaryCoord(vs, Zeros(Len(vs)), dy, CurOf, W(ng), H(ng)), NaryCoord(vs, Zeros(Len(vs)), dy, PopOf, W(ng), H(ng)))
       [] op.n = "join" ->
            LET gs == [i \in 1..Len(vs) |-> vs[i].g]
                dx == Offsets(p, 0)
                ng == HJoin(gs, p)
            IN Res(ng, NaryCoord(vs, dx, Zeros(Len(vs)), CurOf, W(ng), H(ng)), NaryCoord(vs, dx, Zeros(Len(vs)), PopOf, W(ng), H(ng)))
       [] op.n \in {"overlay", "ovl"} ->       \* overlay: ids = <<top, bottom>>; ovl (method): ids = <<receiver = bottom, top>>
            LET top == IF op.n = "overlay" THEN vs[1] ELSE vs[2]
                bot == IF op.n = "overlay" THEN vs[2] ELSE vs[1]
                ng == Overlay(bot.g, top.g, p[1], p[2])
            IN Res(ng, OverlayCoord(top, bot, p[1], p[2], CurOf, W(ng), H(ng)), OverlayCoord(top, bot, p[1], p[2], PopOf, W(ng), H(ng)))
       [] op.n = "padlr" ->
            LET ng == PadTrimLR(g, p[1], p[2])
            IN Res(ng, UnaryCoord(v.cur, p[1], 0, W(ng), H(ng)), UnaryCoord(v.pop, p[1], 0, W(ng), H(ng)))
       [] op.n = "padtb" ->
            LET ng == PadTrimTB(g, p[1], p[2])
            IN Res(ng, UnaryCoord(v.cur, 0, p[1], W(ng), H(ng)), UnaryCoord(v.pop, 0, p[1], W(ng), H(ng)))
       [] op.n = "trim" ->
            LET ng == Trim(g, p[1], p[2])
            IN Res(ng, UnaryCoord(v.cur, 0, -p[1], W(ng), H(ng)), UnaryCoord(v.pop, 0, -p[1], W(ng), H(ng)))
       [] op.n = "trimend" ->
            LET ng == TrimEnd(g, p[1])
            IN Res(ng, UnaryCoord(v.cur, 0, 0, W(ng), H(ng)), UnaryCoord(v.pop, 0, 0, W(ng), H(ng)))
       [] op.n = "fill" -> Res(MapAttr(g, Pairs(p)), Exactly(v.cur), Exactly(v.pop))
       [] op.n = "setcur" -> Res(g, Exactly(p), Exactly(v.pop))
       [] op.n = "setpop" -> Res(g, Exactly(v.cur), Exactly(p))
       [] op.n = "delta" -> Res(<<>>, Exactly(<<>>), Exactly(<<>>))

\* dimension algebra: width and height of the result by arithmetic alone
OpDims(op, ds) ==    \* ds = sequence of <<w, h>> of the operands
  LET p == op.p
      d == ds[1]
      RECURSIVE mx(_)
      mx(s) == IF s = <<>> THEN 0 ELSE Max(Head(s)[2], mx(Tail(s)))
  IN CASE op.n = "text" -> <<p[1], Len(op.leaf)>>
       [] op.n = "solid" -> <<p[2], p[3]>>
       [] op.n = "blank" -> <<p[1], p[2]>>
       [] op.n \in {"wrap", "fill", "setcur", "setpop"} -> d
       [] op.n = "combine" -> <<d[1], Sum([i \in 1..Len(ds) |-> ds[i][2]])>>
       [] op.n = "join" -> <<Sum(p), mx(ds)>>
       [] op.n = "overlay" -> ds[2]
       [] op.n = "ovl" -> d
       [] op.n = "padlr" -> <<d[1] + p[1] + p[2], d[2]>>
       [] op.n = "padtb" -> <<d[1], d[2] + p[1] + p[2]>>
       [] op.n = "trim" -> <<d[1], IF p[2] = NoCount THEN d[2] - p[1] ELSE p[2]>>
       [] op.n = "trimend" -> <<d[1], d[2] - p[1]>>
       [] op.n = "delta" -> <<0, 0>>

\* documented domain of each operation (canvas.py docstrings and ValueError guards): offsets >= 0, the top
\* canvas fits, trims leave at least one row / column, join widths are at least the canvases' own, stacked
\* canvases have one width, a delta is taken between canvases of one size.  ds = <<w, h>> of the operands
InDomain(op, ds) ==
  LET p == op.p   d == ds[1] IN
  CASE op.n = "text" -> /\ Len(op.leaf) >= 1 /\ p[1] >= 1
                        /\ \A y \in 1..Len(op.leaf) : RowWidth(op.leaf[y]) <= p[1]
                        /\ (p[2] < 0 \/ (p[2] < p[1] /\ p[3] >= 0 /\ p[3] < Len(op.leaf)))
    [] op.n = "solid" -> ~IsWide(p[1]) /\ p[2] >= 1 /\ p[3] >= 1
    [] op.n = "blank" -> p[1] >= 1 /\ p[2] >= 1
    [] op.n \in {"wrap", "fill", "setcur", "setpop"} -> Len(ds) = 1
    [] op.n = "combine" -> Len(ds) >= 1 /\ \A i \in 1..Len(ds) : ds[i][1] = d[1]
    [] op.n = "join" -> Len(ds) >= 1 /\ Len(p) = Len(ds) /\ \A i \in 1..Len(ds) : p[i] >= ds[i][1]
    [] op.n = "overlay" -> p[1] >= 0 /\ p[2] >= 0 /\ p[1] + d[1] <= ds[2][1] /\ p[2] + d[2] <= ds[2][2]
    [] op.n = "ovl" -> p[1] >= 0 /\ p[2] >= 0 /\ p[1] + ds[2][1] <= d[1] /\ p[2] + ds[2][2] <= d[2]
    [] op.n = "padlr" -> Max(0, -p[1]) + Max(0, -p[2]) < d[1]
    [] op.n = "padtb" -> Max(0, -p[1]) + Max(0, -p[2]) < d[2]
    [] op.n = "trim" -> p[1] >= 0 /\ p[1] < d[2] /\ (p[2] = NoCount \/ (p[2] >= 1 /\ p[1] + p[2] <= d[2]))
    [] op.n = "trimend" -> p[1] >= 1 /\ p[1] < d[2]
    [] op.n = "delta" -> ds[1] = ds[2]
    [] OTHER -> FALSE
===============================================================================
