-------------------------------- MODULE Session --------------------------------
(* End-to-end session model, checked exhaustively by TLC inside small bounds and used as the    *)
(* GENERATOR of key scripts for real sessions (tlc.simulate; the script is the variable hist).  *)
(* The application: two Edits, a CheckBox and a static Text between header and footer.          *)
EXTENDS SessionOps

CONSTANTS Chars,        \* code points that can be typed
          MaxKeys,      \* length of a script
          MaxText,      \* longest Edit text
          KeepHist,     \* TRUE: remember the script (generation); FALSE: exhaustive checking without history
          Bad           \* "" or the name of a deliberately wrong design that the invariants must refute

VARIABLES st, n, hist, prev, lastop
vars == <<st, n, hist, prev, lastop>>

\* texts are written as tuples of code points
App == [title  |-> <<101, 50, 101>>,                                  \* "e2e"
        status |-> <<111, 107>>,                                      \* "ok"
        items  |-> << [kind |-> "edit",  caption |-> <<65, 58>>,     text |-> <<>>,    state |-> FALSE],   \* "A:"
                      [kind |-> "edit",  caption |-> <<66, 66, 58>>, text |-> <<120>>, state |-> FALSE],   \* "BB:" "x"
                      [kind |-> "check", caption |-> <<111>>,        text |-> <<>>,    state |-> FALSE],   \* "o"
                      [kind |-> "text",  caption |-> <<115, 116>>,   text |-> <<>>,    state |-> FALSE] >>]  \* "st"
Sizes == {<<12, 6>>, <<14, 7>>}

K(name, cp, sp) == [name |-> name, cp |-> cp, sp |-> sp]
\* the spelling matters only for the footer; the model spells a name by a private code
CharKeys == {K("char", c, <<c>>) : c \in Chars}
Named == {K("left", 0, <<1>>), K("right", 0, <<2>>), K("home", 0, <<3>>), K("end", 0, <<4>>), K("backspace", 0, <<5>>),
          K("delete", 0, <<6>>), K("up", 0, <<7>>), K("down", 0, <<8>>), K("page up", 0, <<9>>), K("page down", 0, <<10>>),
          K(" ", 32, <<32>>), K("enter", 0, <<11>>), K("f5", 0, <<12, 13>>), K("ctrl l", 0, <<14>>), K("esc", 0, <<15>>)}
AllKeys == CharKeys \cup Named
Backspace == K("backspace", 0, <<5>>)

\* a deliberately wrong list: 'down' moves to the next item whether it can take the focus or not
BadStep(s, k) ==
  IF Bad = "downNoSkip" /\ k.name = "down" /\ s.focus < NItems(App) /\ Kind(App, s.focus) = "check"
  THEN [s EXCEPT !.focus = s.focus + 1]
  ELSE KeyStep(App, s, k)

TextRoom(s, k) ==      \* typing is offered only while the focused Edit has room (the no-wrap assumption of the model)
  k.cp = 0 \/ Kind(App, s.focus) # "edit" \/ Len(s.items[s.focus].text) < MaxText

Init == /\ \E sz \in Sizes : st = InitState(App, sz[1], sz[2])
        /\ n = 0 /\ hist = <<>> /\ prev = st /\ lastop = K("init", 0, <<>>)

DoKey(k) == /\ TextRoom(st, k)
            /\ st' = BadStep(st, k)
            /\ lastop' = k
            /\ hist' = IF KeepHist THEN Append(hist, [op |-> "key", name |-> k.name, cp |-> k.cp, w |-> 0, h |-> 0]) ELSE hist
DoResize(sz) == /\ <<st.cols, st.rows>> # sz
                /\ st' = ResizeStep(st, sz[1], sz[2])
                /\ lastop' = K("resize", 0, <<>>)
                /\ hist' = IF KeepHist THEN Append(hist, [op |-> "resize", name |-> "", cp |-> 0, w |-> sz[1], h |-> sz[2]]) ELSE hist
Next == /\ n < MaxKeys /\ ~st.done
        /\ n' = n + 1 /\ prev' = st
        /\ ((\E k \in AllKeys : DoKey(k)) \/ (\E sz \in Sizes : DoResize(sz)))
Spec == Init /\ [][Next]_vars

(* generation: random scripts, weighted towards typing and moving *)
Z == 0 * n
SimKey == LET r == RandomElement((1 + Z)..10) IN
          IF r <= 4 THEN RandomElement({k \in CharKeys : n >= 0})
          ELSE RandomElement({k \in Named : n >= 0 /\ (k.name # "esc" \/ n >= MaxKeys - 1)})
SimNext == /\ n < MaxKeys /\ ~st.done
           /\ n' = n + 1 /\ prev' = st
           /\ IF RandomElement((1 + Z)..12) = 1
              THEN \E sz \in {RandomElement({s \in Sizes : n >= 0})} : (DoResize(sz) \/ (<<st.cols, st.rows>> = sz /\ DoKey(Backspace)))
              ELSE \E k \in {SimKey} : (DoKey(k) \/ (~TextRoom(st, k) /\ DoKey(Backspace)))
SimSpec == Init /\ [][SimNext]_vars

(* ---- invariants ---- *)
Scr(s) == ExpectedScreen(App, s)
TypeOK ==
  /\ st.focus \in 1..NItems(App)
  /\ \A i \in 1..NItems(App) : st.items[i].pos >= 0 /\ st.items[i].pos <= Len(st.items[i].text) /\ Len(st.items[i].text) <= MaxText
  /\ <<st.cols, st.rows>> \in Sizes
AssumptionsHold == Fits(App, st)
\* the focus is on an item that can take it, except right after the list jumped to its first / last item (home / end)
FocusSelectable == Selectable(App, st.focus) \/ st.focus \in {1, NItems(App)}
FocusSelectableStrict == Selectable(App, st.focus) \/ lastop.name \in {"home", "end"} \/ ~Selectable(App, prev.focus)
\* the cursor is shown exactly when the focus item can take input, inside that item's row, for an Edit inside its text
CursorCell ==
  LET c == Scr(st).cur  f == st.focus IN
  IF ~Selectable(App, f) THEN c = <<>>
  ELSE /\ c # <<>> /\ c[2] = f /\ c[1] >= 0 /\ c[1] < st.cols
       /\ Kind(App, f) = "edit" =>
            /\ c[1] >= WidthOf(App.items[f].caption)
            /\ c[1] <= WidthOf(App.items[f].caption) + WidthOf(st.items[f].text)
ScreenWellFormed ==
  LET g == Scr(st).cells IN
  /\ Len(g) = st.rows
  /\ \A y \in 1..st.rows :
       /\ Len(g[y]) = st.cols
       /\ \A x \in 1..st.cols : /\ g[y][x][2] = 1 => (x < st.cols /\ g[y][x + 1] = <<g[y][x][1], 2>>)
                                /\ g[y][x][2] = 2 => (x > 1 /\ g[y][x - 1] = <<g[y][x][1], 1>>)
\* typing a character into an Edit and then pressing backspace shows the screen from before
TypeBackspaceUndo ==
  (lastop.cp > 0 /\ Kind(App, prev.focus) = "edit" /\ ~prev.done)
    => /\ st.items[st.focus].text # prev.items[prev.focus].text
       /\ Scr(KeyStep(App, st, Backspace)) = Scr(prev)
\* a key nobody uses shows its name in the footer and changes nothing else; the redraw command changes nothing
UnusedKey ==
  /\ lastop.name = "f5" => st = [prev EXCEPT !.footer = lastop.sp]
  /\ lastop.name = "ctrl l" => st = prev
  /\ lastop.name = "esc" <=> st.done
\* the footer changes only to the name of the key just pressed
FooterIsLastUnhandled == st.footer # prev.footer => st.footer = lastop.sp
\* a resize changes the size and nothing else; keys never change the size
ResizeOnlySize ==
  /\ lastop.name = "resize" => st = [prev EXCEPT !.cols = st.cols, !.rows = st.rows]
  /\ lastop.name # "resize" => (st.cols = prev.cols /\ st.rows = prev.rows)
\* moving the focus never edits: texts and the CheckBox change only under the focus
OnlyFocusItemChanges ==
  \A i \in 1..NItems(App) : (i # prev.focus => (st.items[i].text = prev.items[i].text /\ st.items[i].state = prev.items[i].state))
\* space / enter on the CheckBox toggle it
CheckToggles ==
  (Kind(App, prev.focus) = "check" /\ lastop.name \in {" ", "enter"} /\ ~prev.done) => st.items[prev.focus].state # prev.items[prev.focus].state
================================================================================
