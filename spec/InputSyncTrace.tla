--------------------------- MODULE InputSyncTrace ---------------------------
(* C05 trace validation of the synchronous path.  One trace = one real Screen reading a     *)
(* pipe, set_input_timeouts(max_wait, complete_wait), an application that calls              *)
(* get_input() / get_input(raw_keys=True) again and again while fragments of a byte stream   *)
(* arrive at chosen times of a clock the driver controls (the select used by                 *)
(* Screen._wait_for_input_ready is the driver's).  Event "call": one get_input call with     *)
(* the times it started / returned, what it read and when, and what it returned; judged      *)
(* against InputSyncOps!SyncCall from the state the reference carries between calls.          *)
EXTENDS InputSyncOps, Json, IOUtils

Traces == JsonDeserialize(IOEnv.TRACE_FILE)
VARIABLES tid, l, p, tl, lost, ok, why
vars == <<tid, l, p, tl, lost, ok, why>>

Init == tid \in 1..Len(Traces) /\ l = 0 /\ p = <<>> /\ tl = 0 /\ lost = FALSE /\ ok = TRUE /\ why = "-"

Verdict(tr, e, ref, hold) ==
  IF e.exc # "" THEN "decoding_never_raises"
  ELSE IF lost \/ ref.unspec THEN "-"                      \* malformed report or ambiguous timing: result not fixed
  ELSE IF ProjSeq(e.out) # ProjSeq(ref.evs)
       THEN IF ProjSeq(ref.evs) = ProjSeq(hold.evs) /\ ref.p = hold.p
            THEN "sync_same_events_however_fragmented"           \* no completion timeout expired in this call
            \* what an implementation whose completion timeout never expires returns (any result where that is not fixed)
            ELSE IF hold.unspec \/ ProjSeq(e.out) = ProjSeq(hold.evs)
                 THEN "sync_pending_bytes_held_after_complete_wait_expired"
                 ELSE "sync_pending_bytes_decoded_on_timeout"
  ELSE IF tr.rawkeys = 1 /\ e.raw # ref.raw THEN "sync_every_byte_consumed_exactly_once_left_to_right"
  ELSE "-"

Step == /\ ok /\ l < Len(Traces[tid].ev) /\ l' = l + 1 /\ tid' = tid
        /\ LET tr == Traces[tid]
               e == tr.ev[l + 1]
               ref == SyncCall(p, tl, e.reads, e.t1, tr.cw, tr.mode)
               hold == SyncCall(p, tl, e.reads, e.t1, Never, tr.mode)
               v == Verdict(tr, e, ref, hold)
           IN /\ why' = v /\ ok' = (v = "-")
              /\ p' = ref.p /\ tl' = ref.tl
              /\ lost' = (lost \/ ref.unspec)
Spec == Init /\ [][Step]_vars
Report == ok \/ PrintT(<<"REJECT", tid, l, why>>)
=============================================================================
