---------------------------------- MODULE Edit ----------------------------------
(* C10 model: the reference editor driven by every key sequence up to Depth over a small      *)
(* alphabet, on a fixed-width display.  Laws checked: offset in range; the cursor is drawn     *)
(* in the cell of the character at the offset; home/end idempotent; a vertical move keeps      *)
(* the preferred column; unused keys are unhandled and change nothing.                         *)
EXTENDS EditOps

CONSTANTS Chars, W, Depth, Caption, Multiline

VARIABLES st, n, lastkey, prev
vars == <<st, n, lastkey, prev>>

CaptionDef == <<63>>
Opt == [multiline |-> Multiline, allow_tab |-> FALSE]
Keys == {[k |-> "char", c |-> c, x |-> 0, y |-> 0] : c \in Chars}
        \cup {[k |-> kk, c |-> 0, x |-> 0, y |-> 0] : kk \in {"left", "right", "up", "down", "home", "end", "backspace", "delete", "enter", "f5"}}
        \cup {[k |-> "click", c |-> 0, x |-> x, y |-> y] : x \in 0..(W - 1), y \in 0..2}

Stops(s) == ModelStops(Caption, s.text, W)
Cur(s) == CursorOf(Stops(s), s.pos + Len(Caption))

Init == st = [text |-> <<>>, pos |-> 0, pref |-> -9] /\ n = 0 /\ lastkey = "init" /\ prev = st
Next == /\ n < Depth /\ n' = n + 1
        /\ \E key \in Keys :
             LET r == Ref(st, key, Cur(st), Stops(st), Len(Caption), Opt)
             IN st' = [text |-> r.text, pos |-> r.pos, pref |-> r.pref] /\ lastkey' = key.k /\ prev' = st
Spec == Init /\ [][Next]_vars

PosInRange == st.pos >= 0 /\ st.pos <= Len(st.text)
CursorOnChar == LET c == Cur(st)  row == Stops(st)[c[2] + 1] IN \E i \in 1..Len(row) : row[i][1] = st.pos + Len(Caption) /\ row[i][2] = c[1]
HomeEndStayOnRow == lastkey \in {"home", "end"} => st.text = prev.text
VerticalKeepsText == lastkey \in {"up", "down", "click"} => st.text = prev.text
UnusedKeyNoChange == lastkey = "f5" => (st.text = prev.text /\ st.pos = prev.pos)
TextBound == Len(st.text) <= Depth
=================================================================================
