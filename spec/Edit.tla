---------------------------------- MODULE Edit ----------------------------------
(* C10 model: the reference editor driven by every key sequence up to Depth over a small      *)
(* alphabet, on a fixed-width display with an alignment, wrap mode any or clip, and the view   *)
(* of the focused widget shifted to the cursor.  Kind "int" is the integer variant (digits     *)
(* only, leading zeros left of the cursor dropped).  Laws checked: offset in range; the cursor *)
(* is drawn inside the widget, in the cell of the character at the offset, for every alignment *)
(* and wrap mode; a click on the cursor cell keeps the offset; home/end idempotent; a vertical *)
(* move keeps the text; unused keys are unhandled and change nothing; the integer variant      *)
(* holds digits only, no zero in front of the number left of the cursor, and dropping zeros    *)
(* keeps the digits behind the cursor.  View and Trim select deliberately wrong designs        *)
(* ("noshift", "keepOnCancel"; "clampFirst") that TLC must refute.                             *)
EXTENDS EditOps

CONSTANTS Chars, W, Depth, Caption, Multiline, Align, Wrap, Kind, Start, View, Trim

VARIABLES st, n, lastkey, prev, plain
vars == <<st, n, lastkey, prev, plain>>

CaptionDef == <<63>>
NoCaption == <<>>
StartEmpty == <<>>
Start502 == <<53, 48, 50>>
Start5002 == <<53, 48, 48, 50>>
StartAbc == <<97, 98, 99, 100>>
Opt == [multiline |-> Multiline, allow_tab |-> FALSE]
Keys == {[k |-> "char", c |-> c, x |-> 0, y |-> 0] : c \in Chars}
        \cup {[k |-> kk, c |-> 0, x |-> 0, y |-> 0] : kk \in {"left", "right", "up", "down", "home", "end", "backspace", "delete", "enter", "f5"}}
        \cup {[k |-> "click", c |-> 0, x |-> x, y |-> y] : x \in 0..(W - 1), y \in 0..2}

\* what the focused widget shows: wrapped (or, clipped, one row per line), aligned, the cursor row shifted to the cursor
Stops(s) == ViewStops(AlignStops(ModelStops(Caption, s.text, IF Wrap = "clip" THEN 99 ELSE W), W, Align), s.pos + Len(Caption), W, View)
Cur(s) == CursorOf(Stops(s), s.pos + Len(Caption))
RefK(s, key) == IF Kind = "int" THEN RefInt(s, key, Cur(s), Stops(s), Len(Caption), Opt, Trim) ELSE Ref(s, key, Cur(s), Stops(s), Len(Caption), Opt)

Init == st = [text |-> Start, pos |-> Len(Start), pref |-> -9] /\ n = 0 /\ lastkey = "init" /\ prev = st /\ plain = [text |-> Start, pos |-> Len(Start), used |-> FALSE]
Next == /\ n < Depth /\ n' = n + 1
        /\ \E key \in Keys :
             LET stops == Stops(st)
                 cur == CursorOf(stops, st.pos + Len(Caption))
                 q == Ref(st, key, cur, stops, Len(Caption), Opt)
                 r == IF Kind = "int" THEN RefInt(st, key, cur, stops, Len(Caption), Opt, Trim) ELSE q
             IN /\ st' = [text |-> r.text, pos |-> r.pos, pref |-> r.pref] /\ lastkey' = key.k /\ prev' = st
                /\ plain' = IF r.handled THEN [text |-> q.text, pos |-> q.pos, used |-> key.k # "click"] ELSE [text |-> st.text, pos |-> st.pos, used |-> FALSE]
Spec == Init /\ [][Next]_vars

PosInRange == st.pos >= 0 /\ st.pos <= Len(st.text)
CursorLaws ==
  LET stops == Stops(st)  p == st.pos + Len(Caption)  c == CursorOf(stops, p)
      click == [k |-> "click", c |-> 0, x |-> c[1], y |-> c[2]]
      r == IF Kind = "int" THEN RefInt(st, click, c, stops, Len(Caption), Opt, Trim) ELSE Ref(st, click, c, stops, Len(Caption), Opt)
  IN [onchar |-> CursorOnStop(c, stops, p), inside |-> CursorInside(c, W, Len(stops)), click |-> r.pos = st.pos]
CursorOnChar == CursorLaws.onchar
CursorInsideWidget == CursorLaws.inside
ClickOnCursorKeepsOffset == CursorLaws.click
HomeEndStayOnRow == lastkey \in {"home", "end"} => (st.text = prev.text \/ Kind = "int")
VerticalKeepsText == lastkey \in {"up", "down", "click"} => (st.text = prev.text \/ Kind = "int")
UnusedKeyNoChange == lastkey = "f5" => (st.text = prev.text /\ st.pos = prev.pos)
\* the integer variant
IntDigitsOnly == Kind = "int" => \A i \in 1..Len(st.text) : IsDigit(st.text[i])
\* after a key the editor used (a click only moves the cursor) no zero in front of the number stands left of the cursor
IntNoZeroLeftOfCursor == (Kind = "int" /\ plain.used) => (st.pos = 0 \/ st.text[1] # 48)
\* what is dropped are zeros in front of the cursor, nothing else: the digits from the cursor on are those of the plain editor, the cursor
\* moved left by the number of dropped characters, and the number did not change its value
IntTrimKeepsDigits ==
  Kind = "int" => LET d == Len(plain.text) - Len(st.text)
                  IN /\ d >= 0 /\ st.pos = plain.pos - d
                     /\ st.text = SubSeq(plain.text, d + 1, Len(plain.text))
                     /\ \A i \in 1..d : plain.text[i] = 48
TextBound == Len(st.text) <= Depth + Len(Start)
=================================================================================
