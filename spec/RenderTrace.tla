----------------------------- MODULE RenderTrace -----------------------------
(* C01 trace validation.  One trace = one widget term built by the real urwid in one encoding *)
(* mode; one event = what rows()/pack()/render() really returned for one size and focus flag  *)
(* in a sizing mode the widget itself reported.  Each clause is one sentence of the property. *)
(* Row widths are summed HERE from per-character widths the harness took from the Unicode     *)
(* database (not from urwid's calc_width).  The last event of a trace compares the reported   *)
(* sizing() with the documented rules of WidgetTreeOps; a mismatch there is a DIVERGENCE      *)
(* ("div_" prefix), not a violation.                                                          *)
EXTENDS WidgetTreeOps, Json, IOUtils, TLC

Traces == JsonDeserialize(IOEnv.TRACE_FILE)
VARIABLES tid, l, ok, why
vars == <<tid, l, ok, why>>

Init == tid \in 1..Len(Traces) /\ l = 0 /\ ok = TRUE /\ why = "-"

Width(row) == SumSeq(row)
ASSUME Width(<<1, 2, 0, 1>>) = 4 /\ Width(<<>>) = 0
SetOf(s) == {s[i] : i \in 1..Len(s)}

\* the size is one the property quantifies over: every dimension >= 1 (a fixed widget chooses its own size)
InDomain(e) == CASE e.mode = "box" -> e.c >= 1 /\ e.r >= 1
                 [] e.mode = "flow" -> e.c >= 1
                 [] e.mode = "fixed" -> e.calc_exc # "" \/ (e.pc >= 1 /\ e.pr >= 1)

RenderVerdict(e) ==
  IF ~InDomain(e) THEN "-"
  ELSE IF e.exc # "" THEN "render_never_raises"
  ELSE IF e.mode = "box" /\ (e.cc # e.c \/ e.cr # e.r) THEN "box_exact_size"
  ELSE IF e.mode = "flow" /\ (e.calc_exc # "" \/ e.cr # e.rows_call \/ (e.cr > 0 /\ e.cc # e.c)) THEN "flow_cols_and_rows_equal_rows_call"
  ELSE IF e.mode = "fixed" /\ (e.calc_exc # "" \/ e.cc # e.pc \/ e.cr # e.pr) THEN "fixed_equals_pack"
  ELSE IF Len(e.content) # e.cr THEN "row_count_equals_rows"
  ELSE IF \E i \in 1..Len(e.content) : Width(e.content[i]) # e.cc THEN "every_row_width_equals_cols"
  ELSE IF Len(e.cur) = 2 /\ ~(e.cur[1] >= 0 /\ e.cur[1] < e.cc /\ e.cur[2] >= 0 /\ e.cur[2] < e.cr) THEN "cursor_inside"
  ELSE "-"

Verdict(tr, e) ==
  IF e.t = "sizing" THEN (IF SetOf(e.got) # Ann(tr.term).s THEN "div_sizing_as_documented" ELSE "-")
  ELSE IF e.t = "render" THEN
         LET v == RenderVerdict(e) IN
         \* label rejections in a mode the documented rules say a child cannot be used in (sizing() over-claims)
         IF v # "-" /\ e.mode \in OverClaimed(Ann(tr.term)) THEN v \o "@overclaimed" ELSE v
  ELSE "no_action"

Step == /\ ok /\ l < Len(Traces[tid].ev) /\ l' = l + 1 /\ tid' = tid
        /\ LET v == Verdict(Traces[tid], Traces[tid].ev[l + 1]) IN why' = v /\ ok' = (v = "-")
Spec == Init /\ [][Step]_vars
Report == ok \/ PrintT(<<"REJECT", tid, l, why>>)
===============================================================================
