----------------------------- MODULE RenderTrace -----------------------------
(* C01 trace validation.  One trace = one widget term built by the real urwid in one encoding *)
(* mode; one event = what rows()/pack()/render() really returned for one size and focus flag  *)
(* in a sizing mode the widget itself reported.  Each clause is one sentence of the property. *)
(* Row widths are summed HERE from per-character widths the harness took from the Unicode     *)
(* database (not from urwid's calc_width).  The last event of a trace compares the reported   *)
(* sizing() with the documented rules of WidgetTreeOps; a mismatch there is a DIVERGENCE      *)
(* ("div_" prefix), not a violation.                                                          *)
(*                                                                                            *)
(* Histories ("frames").  The property is about every rendering, not only the first one on a  *)
(* fresh canvas cache: a screen holds the canvas of the last frame, so widgets are rendered   *)
(* again while earlier canvases are alive.  Event "frame" is a rendering made WITHOUT         *)
(* clearing the canvas cache, of the root (op root / again / inval = after _invalidate()) or  *)
(* of the sub-widget at `path` at a size and focus flag its parent gave it (op sub); it is    *)
(* judged by the same sentences, in a mode the rendered widget itself reports (szg).  The     *)
(* state variable `held` remembers, per event, the canvas a rendering returned; event "held"  *)
(* measures that canvas again after the later renderings: a canvas that was handed out is     *)
(* never changed by rendering something else (clause held_canvas_keeps_its_size).             *)
(* Event "layout" (after the root's rendering) records the widths a Columns of the tree gave   *)
(* its children in that rendering, judged by the documented sharing contract                   *)
(* WidgetTreeOps!ColumnsLayoutOK (clause columns_share_out_the_requested_columns).             *)
EXTENDS WidgetTreeOps, Json, IOUtils, TLC

Traces == JsonDeserialize(IOEnv.TRACE_FILE)
VARIABLES tid, l, ok, why,
          held          \* history traces: held[i] is the canvas returned by event i of the trace (NoCanvas when it returned none)
vars == <<tid, l, ok, why, held>>

NoCanvas == [cc |-> -1, cr |-> -1, widths |-> <<>>, cur |-> <<>>]
Init == tid \in 1..Len(Traces) /\ l = 0 /\ ok = TRUE /\ why = "-" /\ held = <<>>

Width(row) == SumSeq(row)
ASSUME Width(<<1, 2, 0, 1>>) = 4 /\ Width(<<>>) = 0
SetOf(s) == {s[i] : i \in 1..Len(s)}

\* the size is one the property quantifies over: every dimension >= 1 (a fixed widget chooses its own size)
InDomain(e) == CASE e.mode = "box" -> e.c >= 1 /\ e.r >= 1
                 [] e.mode = "flow" -> e.c >= 1
                 [] e.mode = "fixed" -> e.calc_exc # "" \/ (e.pc >= 1 /\ e.pr >= 1)

\* calc_again: <<when, cols, rows>> for every later call of rows() / pack() at the size of the event ("after" the rendering,
\* after "inval"idating the widget); <<when, -1, -1>> when the call raised
AgainWhen == {"after", "inval"}
AgainAgrees(e, cols, rows) == \A i \in 1..Len(e.calc_again) : e.calc_again[i][1] \in AgainWhen /\ e.calc_again[i][2] = cols /\ e.calc_again[i][3] = rows
ASSUME /\ AgainAgrees([calc_again |-> << <<"after", 4, 2>>, <<"inval", 4, 2>> >>], 4, 2) /\ AgainAgrees([calc_again |-> <<>>], 4, 2)
       /\ ~AgainAgrees([calc_again |-> << <<"after", 4, 2>>, <<"inval", 4, 3>> >>], 4, 2) /\ ~AgainAgrees([calc_again |-> << <<"inval", -1, -1>> >>], 4, 2)

RenderVerdict(e) ==
  IF ~InDomain(e) THEN "-"
  ELSE IF e.exc # "" THEN "render_never_raises"
  ELSE IF e.mode = "box" /\ (e.cc # e.c \/ e.cr # e.r) THEN "box_exact_size"
  ELSE IF e.mode = "flow" /\ (e.calc_exc # "" \/ e.cr # e.rows_call \/ (e.cr > 0 /\ e.cc # e.c)) THEN "flow_cols_and_rows_equal_rows_call"
  ELSE IF e.mode = "fixed" /\ (e.calc_exc # "" \/ e.cc # e.pc \/ e.cr # e.pr) THEN "fixed_equals_pack"
  \* the widget's own calculation asked again in another order (after the rendering, after _invalidate()) reports the same size
  ELSE IF e.mode = "flow" /\ ~AgainAgrees(e, e.c, e.cr) THEN "flow_cols_and_rows_equal_rows_call"
  ELSE IF e.mode = "fixed" /\ ~AgainAgrees(e, e.cc, e.cr) THEN "fixed_equals_pack"
  ELSE IF Len(e.content) # e.cr THEN "row_count_equals_rows"
  ELSE IF \E i \in 1..Len(e.content) : Width(e.content[i]) # e.cc THEN "every_row_width_equals_cols"
  ELSE IF Len(e.cur) = 2 /\ ~(e.cur[1] >= 0 /\ e.cur[1] < e.cc /\ e.cur[2] >= 0 /\ e.cur[2] < e.cr) THEN "cursor_inside"
  ELSE "-"

RowWidths(content) == [i \in 1..Len(content) |-> Width(content[i])]
CanvasOf(e) == IF e.t = "frame" /\ e.exc = "" THEN [cc |-> e.cc, cr |-> e.cr, widths |-> RowWidths(e.content), cur |-> e.cur]
               ELSE NoCanvas
ASSUME RowWidths(<< <<1, 2>>, <<>>, <<0, 1>> >>) = <<3, 0, 1>>

RECURSIVE Sub(_, _)
Sub(t, path) == IF Len(path) = 0 THEN t ELSE Sub(t.c[Head(path)], Tail(path))
FrameOps == {"root", "sub", "again", "inval"}

\* a rendering inside a history: the root's are judged like first renderings; a sub-widget is judged in the modes it reports itself
FrameVerdict(tr, e) ==
  IF e.op \notin FrameOps \/ (e.op # "sub" /\ Len(e.path) # 0) THEN "no_action"
  ELSE IF e.mode \notin SetOf(e.szg) THEN "-"
  ELSE LET v == RenderVerdict(e) IN
       IF v # "-" /\ e.mode \in OverClaimed(Ann(Sub(tr.term, e.path))) THEN v \o "@overclaimed" ELSE v

\* a canvas handed out earlier in the history, measured again: same size, same row widths, same cursor
HeldVerdict(e, hs) ==
  IF ~(e.ref >= 1 /\ e.ref <= Len(hs)) \/ hs[e.ref] = NoCanvas THEN "no_action"
  ELSE IF e.exc # "" \/ e.cc # hs[e.ref].cc \/ e.cr # hs[e.ref].cr \/ RowWidths(e.content) # hs[e.ref].widths \/ e.cur # hs[e.ref].cur
    THEN "held_canvas_keeps_its_size"
  ELSE "-"

\* what a Columns of the history gave its children in the rendering of the root (event "layout": path of the Columns, the
\* columns it was given, the columns of the canvas of each child, 0 = not shown): the documented contract of WidgetTreeOps
LayoutVerdict(tr, e) ==
  LET t == Sub(tr.term, e.path) IN
  IF t.k # "Columns" \/ Len(e.w) # Len(t.c) THEN "no_action"
  ELSE IF ~ColumnsLayoutOK(t.o, e.w, e.c) THEN "columns_share_out_the_requested_columns"
  ELSE "-"

Skipped(e) == "skip" \in DOMAIN e /\ e.skip = 1     \* continuation after a known finding: already reported, only updates the state

Verdict(tr, e, hs) ==
  IF Skipped(e) THEN "-"
  ELSE IF e.t = "frame" THEN FrameVerdict(tr, e)
  ELSE IF e.t = "held" THEN HeldVerdict(e, hs)
  ELSE IF e.t = "layout" THEN LayoutVerdict(tr, e)
  ELSE IF e.t = "sizing" THEN (IF SetOf(e.got) # Ann(tr.term).s THEN "div_sizing_as_documented" ELSE "-")
  ELSE IF e.t = "render" THEN
         LET v == RenderVerdict(e) IN
         \* label rejections in a mode the documented rules say a child cannot be used in (sizing() over-claims)
         IF v # "-" /\ e.mode \in OverClaimed(Ann(tr.term)) THEN v \o "@overclaimed" ELSE v
  ELSE "no_action"

Step == /\ ok /\ l < Len(Traces[tid].ev) /\ l' = l + 1 /\ tid' = tid
        /\ LET e == Traces[tid].ev[l + 1]
               v == Verdict(Traces[tid], e, held)
           IN why' = v /\ ok' = (v = "-") /\ held' = (IF e.t \in {"frame", "held", "layout"} THEN Append(held, CanvasOf(e)) ELSE held)   \* a history holds only these events (held[i] belongs to event i)
Spec == Init /\ [][Step]_vars
Report == ok \/ PrintT(<<"REJECT", tid, l, why>>)
===============================================================================
