-------------------------- MODULE RawDisplayResize --------------------------
(* C04, design level: the row diff of the raw display against an asynchronous size change. *)
(* The display remembers the rows it believes the terminal shows (buf) and skips the rows   *)
(* of a new frame that equal them.  SIGWINCH may be delivered at any moment, also between   *)
(* two rows of a frame that is being composed: the terminal then has a new height and       *)
(* unknown contents, the handler forgets buf and raises `resized`; the application learns   *)
(* the new size when it reads its input ("window resize").  A frame is composed row by row  *)
(* (Compose) and written in one piece (Finish).                                             *)
(*   Variant "recheck" (the design): a frame overtaken by a size change is dropped.         *)
(*   Variant "write"   (wrong): it is written and remembered all the same; TLC must refute  *)
(*   it: a later frame at the new size skips rows the terminal does not show.               *)
(* Rows are abstract values; the width does not matter here (a row of another width equals  *)
(* no remembered row).  Writing row y of a frame composed for a taller screen lands on the  *)
(* last line (cursor addressing is clamped).                                                *)
EXTENDS Integers, Sequences

CONSTANTS MaxH, RowVals, Variant, MaxDraws

Junk == 0                                  \* what a line shows after a size change: nothing any canvas contains
Heights == 1..MaxH
Canvases(h) == [1..h -> RowVals]

VARIABLES shown,      \* what the terminal shows, line by line (its height is Len(shown))
          buf,        \* rows the display believes are shown; <<>> = nothing known
          resized,    \* SIGWINCH seen, 'window resize' not yet reported to the application
          size,       \* the height the application renders for
          pc,         \* "idle" | "compose"
          canv, y, out, sb,   \* the frame being composed: canvas, rows done, rows to write (set of indices), new buf
          last,       \* the canvas of the last frame the application drew completely at the present size; <<>> = none
          draws
vars == <<shown, buf, resized, size, pc, canv, y, out, sb, last, draws>>

Init == /\ size \in Heights /\ shown = [i \in 1..size |-> Junk] /\ buf = <<>> /\ resized = FALSE
        /\ pc = "idle" /\ canv = <<>> /\ y = 0 /\ out = {} /\ sb = <<>> /\ last = <<>> /\ draws = 0

\* the application draws a canvas of the height it believes in
Begin == /\ pc = "idle" /\ draws < MaxDraws
         /\ \E c \in Canvases(size) :
              IF resized
              THEN UNCHANGED <<pc, canv, y, out, sb, last>>          \* not drawn: the size change has to be handled first
              ELSE pc' = "compose" /\ canv' = c /\ y' = 0 /\ out' = {} /\ sb' = <<>> /\ last' = <<>>
         /\ draws' = draws + 1
         /\ UNCHANGED <<shown, buf, resized, size>>

Compose == /\ pc = "compose" /\ y < Len(canv)
           /\ y' = y + 1
           /\ sb' = Append(sb, canv[y + 1])
           /\ out' = IF y + 1 <= Len(buf) /\ buf[y + 1] = canv[y + 1] THEN out ELSE out \cup {y + 1}
           /\ UNCHANGED <<shown, buf, resized, size, pc, canv, last, draws>>

\* rows written in order; a row below the bottom of the terminal lands on its last line
RECURSIVE Paint(_, _, _)
Paint(s, rows, i) ==
  IF i > Len(canv) THEN s
  ELSE IF i \in rows THEN Paint([s EXCEPT ![IF i <= Len(s) THEN i ELSE Len(s)] = canv[i]], rows, i + 1)
  ELSE Paint(s, rows, i + 1)

Finish == /\ pc = "compose" /\ y = Len(canv)
          /\ IF resized /\ Variant = "recheck"
             THEN UNCHANGED <<shown, buf, last>>
             ELSE /\ shown' = Paint(shown, out, 1)
                  /\ buf' = sb
                  /\ last' = IF resized THEN <<>> ELSE canv     \* a frame the size change overtook claims nothing
          /\ pc' = "idle"
          /\ UNCHANGED <<resized, size, canv, y, out, sb, draws>>

\* the window gets a (possibly equal) height at any moment, also in the middle of a frame
Sigwinch == /\ \E h \in Heights : shown' = [i \in 1..h |-> Junk]
            /\ resized' = TRUE /\ buf' = <<>> /\ last' = <<>>
            /\ UNCHANGED <<size, pc, canv, y, out, sb, draws>>

\* the application reads its input, is told 'window resize' and asks for the size
Handle == /\ pc = "idle" /\ resized
          /\ resized' = FALSE /\ size' = Len(shown)
          /\ UNCHANGED <<shown, buf, pc, canv, y, out, sb, last, draws>>

Next == Begin \/ Compose \/ Finish \/ Sigwinch \/ Handle
Spec == Init /\ [][Next]_vars

TypeOK == Len(shown) \in Heights /\ pc \in {"idle", "compose"}
\* the terminal shows the most recently drawn canvas
ShowsLastCanvas == (pc = "idle" /\ last # <<>>) => shown = last
\* and what the display believes is on the terminal is on the terminal
BufIsShown == (pc = "idle" /\ buf # <<>> /\ ~resized) => \A i \in 1..Len(buf) : i <= Len(shown) /\ shown[i] = buf[i]
=============================================================================
