--------------------------- MODULE CanvasCacheOps ---------------------------
(* C06 — the canvas cache is invisible.  Contract operators (no variables).                  *)
(*                                                                                           *)
(* Part 1 is the contract in the abstract vocabulary of the design model CanvasCache.tla:     *)
(* a rendering of widget w at a size is a function of the "stamps" (content version of a     *)
(* leaf, focus position of a container, and for widgets with layout state the layout a fresh   *)
(* rendering at that size resolves: the displayed scroll offset, the version the remembered    *)
(* layout was worked out from) of every widget at or below w, and a canvas answered from the   *)
(* cache must record exactly the stamps a fresh rendering at its size would record now.        *)
(* Part 2 is the same contract in the vocabulary of recorded executions of the real code:     *)
(* a rendering is <<text rows, attribute rows, cursor>> (sequences of integers) and every     *)
(* sentence of the property is one clause of RenderVerdict / RowsVerdict / HeldVerdict.       *)
EXTENDS Integers, Sequences, FiniteSets, TLC

(* ------------------------------------------------------------------------------------------ *)
(* Part 1: the fixed widget tree of the design model                                          *)
(*            R                                                                              *)
(*          /   \                                                                            *)
(*         A     I                                                                           *)
(*              / \                                                                          *)
(*             B   C                                                                         *)
Widgets == {"R", "A", "I", "B", "C"}
Kids(w) == CASE w = "R" -> <<"A", "I">>
             [] w = "I" -> <<"B", "C">>
             [] OTHER -> <<>>
KidSet(w) == {Kids(w)[i] : i \in 1..Len(Kids(w))}
Leaves == {w \in Widgets : Kids(w) = <<>>}
Containers == Widgets \ Leaves

RECURSIVE Below(_)
Below(w) == {w} \cup UNION {Below(k) : k \in KidSet(w)}
Ancestors(x) == {w \in Widgets : x \in Below(w)}      \* includes x itself

\* what a rendering of w is a function of
Fresh(w, stamp) == [x \in Below(w) |-> stamp[x]]

\* sentence 1: what is answered with cached canvases available is what a fresh rendering gives
NotStale(c, stamp) == c.seen = Fresh(c.w, stamp)

\* sentence 2: a change to any widget is visible in the next rendering of every ancestor that displays it:
\* after stamp[x] changed, no cached canvas of an ancestor of x may still record the old stamp
ChangeVisible(cachedCanvases, x, stamp) == \A c \in cachedCanvases : x \in Below(c.w) => c.seen[x] = stamp[x]

(* ------------------------------------------------------------------------------------------ *)
(* Part 2: recorded executions.  A rendering is <<txt, att, cur>>:                            *)
(*   txt  = one sequence per canvas row: <<width in columns, code points without trailing     *)
(*          blanks...>>;  att = one sequence per row of <<attribute id, run length, ...>>;     *)
(*   cur  = <<>> (no cursor) or <<x, y>>.                                                      *)
NoRendering == <<"none">>
Rendering(txt, att, cur) == <<txt, att, cur>>
Cached(e) == Rendering(e.c_txt, e.c_att, e.c_cur)
Fresh2(e) == Rendering(e.f_txt, e.f_att, e.f_cur)

\* e: one render call observed on the real tree (cached path: c_*) together with the rendering of the
\*    same tree with the cache emptied first (f_*);  prev: <<cached, fresh>> of the previous render call
\*    with the same (widget, size, focus), or NoRendering.
RenderVerdict(e, prev) ==
  IF e.c_exc # e.f_exc THEN "render_never_raises"                 \* the cached path raises iff the fresh path does
  ELSE IF e.c_exc # "" THEN "-"                                    \* both refuse this size: not a statement about the cache
  ELSE IF prev # NoRendering /\ prev[2] # Fresh2(e) /\ prev[1] = Cached(e) /\ Cached(e) # Fresh2(e)
       THEN "change_visible_in_next_rendering_of_every_ancestor"   \* the widget changed, the cached answer did not
  ELSE IF e.c_txt # e.f_txt \/ e.c_att # e.f_att THEN "cached_equals_fresh_content"
  ELSE IF e.c_cur # e.f_cur THEN "cached_equals_fresh_cursor"
  ELSE "-"

\* rows(size, focus) answered with the cache available against rows() computed afresh
RowsVerdict(e) ==
  IF e.c_exc # e.f_exc THEN "rows_never_raises"
  ELSE IF e.c_exc # "" THEN "-"
  ELSE IF e.c_rows # e.f_rows THEN "rows_equal_fresh"
  ELSE "-"

\* a size-dependent question that changes nothing (get_cursor_coords(size), get_pref_col(size), ListBox.ends_visible(size)):
\* the answer of the live tree (rows of sub-widgets may be read from cached canvases, stored layout state is resolved
\* for this size) against the answer of the same tree with the caches emptied first
QueryVerdict(e) ==
  IF e.c_exc # e.f_exc THEN "query_never_raises"
  ELSE IF e.c_exc # "" THEN "-"
  ELSE IF e.c_val # e.f_val THEN "query_equals_fresh"
  ELSE "-"

\* held: the renderings read from the canvases when the cache handed them out (in hand-out order);
\* now: the same canvases read again later
HeldVerdict(held, now) ==
  IF Len(held) # Len(now) THEN "harness_held_count"
  ELSE IF \E i \in 1..Len(held) : held[i] # now[i] THEN "cached_canvas_never_modified"
  ELSE "-"

RemoveAt(s, i) == [j \in 1..(Len(s) - 1) |-> IF j < i THEN s[j] ELSE s[j + 1]]
=============================================================================
