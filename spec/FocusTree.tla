-------------------------------- MODULE FocusTree --------------------------------
(* C08 model: a two-level tree (a Pile whose children are leaves or Columns of leaves) under   *)
(* every history of arrow keys, focus assignments (valid and invalid) and child deletions      *)
(* within bounds, with navigation as documented (an arrow key moves to the nearest selectable  *)
(* sibling in that direction, else is passed up).  TLC checks the focus invariants of          *)
(* FocusTreeOps in every reachable state.                                                      *)
EXTENDS FocusTreeOps

CONSTANTS Shapes, Depth     \* Shapes: set of trees given as sequences of children; a child is <<"leaf", sel>> or <<"cols", <<sel...>>>>

VARIABLES kids, pf, cf, n, lastmoved     \* kids: children of the Pile; pf: Pile focus; cf: focus per Columns child
vars == <<kids, pf, cf, n, lastmoved>>

ChildKinds == {<<"leaf", <<0>>>>, <<"leaf", <<1>>>>, <<"cols", <<0, 1>>>>, <<"cols", <<1, 1>>>>, <<"cols", <<0, 0>>>>}
ShapesDef == UNION {[1..k -> ChildKinds] : k \in 0..3}
IsCols(c) == c[1] = "cols"
ChildSel(c) == \E j \in 1..Len(c[2]) : c[2][j] = 1

Init == /\ kids \in Shapes
        /\ pf = IF kids = <<>> THEN -1 ELSE 0
        /\ cf = [i \in 1..Len(kids) |-> IF IsCols(kids[i]) /\ Len(kids[i][2]) > 0 THEN 0 ELSE -1]
        /\ n = 0 /\ lastmoved = -1

Vertical(dir) ==   \* up / down in the Pile: nearest selectable sibling in that direction
  LET cands == {i \in 1..Len(kids) : ChildSel(kids[i]) /\ (IF dir = 1 THEN i - 1 > pf ELSE i - 1 < pf)}
  IN IF cands = {} THEN UNCHANGED <<pf, lastmoved>>
     ELSE LET t == IF dir = 1 THEN CHOOSE i \in cands : \A j \in cands : i <= j ELSE CHOOSE i \in cands : \A j \in cands : i >= j
          IN pf' = t - 1 /\ lastmoved' = t - 1
Horizontal(dir) ==
  IF pf < 0 \/ ~IsCols(kids[pf + 1]) THEN UNCHANGED <<cf, lastmoved>>
  ELSE LET row == kids[pf + 1][2]  cur == cf[pf + 1]
           cands == {j \in 1..Len(row) : row[j] = 1 /\ (IF dir = 1 THEN j - 1 > cur ELSE j - 1 < cur)}
       IN IF cands = {} THEN UNCHANGED <<cf, lastmoved>>
          ELSE LET t == IF dir = 1 THEN CHOOSE j \in cands : \A k \in cands : j <= k ELSE CHOOSE j \in cands : \A k \in cands : j >= k
               IN cf' = [cf EXCEPT ![pf + 1] = t - 1] /\ lastmoved' = -2

Next == /\ n < Depth /\ n' = n + 1
        /\ \/ (\E d \in {1, 2} : Vertical(d) /\ UNCHANGED <<kids, cf>>)
           \/ (\E d \in {1, 2} : Horizontal(d) /\ UNCHANGED <<kids, pf>>)
           \/ (\E p \in -1..Len(kids) :      \* focus assignment, invalid positions are rejected (IndexError) and change nothing
                 /\ pf' = IF p >= 0 /\ p < Len(kids) THEN p ELSE pf
                 /\ lastmoved' = -1 /\ UNCHANGED <<kids, cf>>)
           \/ (Len(kids) > 0 /\ \E i \in 1..Len(kids) :
                 /\ kids' = SubSeq(kids, 1, i - 1) \o SubSeq(kids, i + 1, Len(kids))
                 /\ cf' = SubSeq(cf, 1, i - 1) \o SubSeq(cf, i + 1, Len(cf))
                 /\ pf' = IF Len(kids) = 1 THEN -1 ELSE IF pf >= i THEN (IF pf - 1 < 0 THEN 0 ELSE pf - 1) ELSE (IF pf > Len(kids) - 2 THEN Len(kids) - 2 ELSE pf)
                 /\ lastmoved' = -1)
Spec == Init /\ [][Next]_vars

FocusInv == (kids = <<>> /\ pf = -1) \/ (kids # <<>> /\ pf >= 0 /\ pf < Len(kids))
ColsFocusInv == \A i \in 1..Len(kids) : IsCols(kids[i]) /\ Len(kids[i][2]) > 0 => (cf[i] >= 0 /\ cf[i] < Len(kids[i][2]))
ArrowLandsOnSelectable == lastmoved >= 0 => ChildSel(kids[lastmoved + 1])
==================================================================================
