-------------------------------- MODULE FocusTree --------------------------------
(* C08 model.  Two kinds of root, chosen at Init:                                              *)
(*  "pile": a Pile whose children are leaves (unselectable / selectable / selectable and        *)
(*          consuming the character "x") or Columns of leaves;                                  *)
(*  "lb":   a ListBox of ListLen one-row leaves seen through a viewport of View rows.           *)
(* Every history (of any length: the state space is closed) of keys (the four arrows and a      *)
(* character), focus assignments (valid and invalid, onto selectable AND unselectable           *)
(* children), child insertions and deletions, and - for the ListBox - layouts (a rendering),    *)
(* with navigation as documented: a key is offered down the focus path as far as the children   *)
(* are selectable, a leaf may consume it, otherwise the innermost container that navigates with *)
(* it moves to the nearest selectable sibling in that direction, otherwise the key comes back.  *)
(* A ListBox focus assignment moves the walker at once and remembers the old position until     *)
(* the next layout ("far jump": the new item is not among the visible rows around the old one). *)
(* The state is projected to the node table of FocusTreeOps and TLC checks the SAME predicates  *)
(* the trace specification applies to the real containers.                                      *)
(* Variant selects the design: "doc" must satisfy every invariant; the wrong designs            *)
(*  "guardOnFocusChild" (the Pile asks the focus CHILD instead of itself whether to offer the   *)
(*   key, and falls into its cursor-down branch when that child is unselectable) and            *)
(*  "staleWalker" (a far jump leaves the walker on the old position at the next layout)         *)
(* must be refuted (the driver runs them and demands the violation).                            *)
(* Columns geometry: every column is ColW cells wide, columns are Div cells apart, a Columns    *)
(* child is RowW cells wide.  When the columns do not all fit, those left of the ones that fit  *)
(* up to the focus are hidden (width 0), as Columns.column_widths lays them out.  Up / down in  *)
(* the Pile that lands on a Columns sends the cursor into it at some column c of the row (the   *)
(* Pile's preferred column: any): the Columns focuses the selectable column the coordinate      *)
(* names (FocusTreeOps!MovePicks), or refuses when none of the listed columns is selectable.    *)
(* Wrong design "shownIndex": the search runs over the shown columns only and its index INTO    *)
(* THAT LIST is assigned to the focus (k hidden columns: the focus lands k columns too far left) *)
EXTENDS FocusTreeOps

CONSTANTS MaxKids, ListLen, View, Wide, Variant, ColW, RowW, Div

VARIABLES mode, kids, pf, cf,        \* kids: children; pf: root focus (Pile focus / walker position); cf: focus per Columns child
          pend, top,                  \* ListBox: old position while an assignment awaits the next layout (-1: none); first visible item
          mv,                         \* the cursor moves into Columns the last step made (records of FocusTreeOps!MoveOk)
          op, pre, key, ate, ret, recv, want    \* the last step: what it was, table before it, key sent, a leaf consumed it, what came back,
                                                \* ids the key was offered to, index a valid assignment asked for (-1: none)
vars == <<mode, kids, pf, cf, pend, top, mv, op, pre, key, ate, ret, recv, want>>

\* a child is <<"leaf", <<sel>>, eats>> or <<"cols", <<sel...>>, 0>>
Leaves == {<<"leaf", <<0>>, 0>>, <<"leaf", <<1>>, 0>>, <<"leaf", <<1>>, 1>>}
ColsKinds == {<<"cols", <<0, 1>>, 0>>, <<"cols", <<1, 1>>, 0>>, <<"cols", <<0, 0>>, 0>>}
             \cup (IF Wide = 1 THEN {<<"cols", <<>>, 0>>, <<"cols", <<1, 0, 1>>, 0>>} ELSE {})
ChildKinds == Leaves \cup ColsKinds
InsertKinds == {<<"leaf", <<0>>, 0>>, <<"leaf", <<1>>, 1>>}
PileShapes == UNION {[1..k -> ChildKinds] : k \in 0..MaxKids}
ListShapes == [1..ListLen -> Leaves]
IsCols(c) == c[1] = "cols"
ChildSel(c) == \E j \in 1..Len(c[2]) : c[2][j] = 1
Keys == {"up", "down", "left", "right", "x"}
Min(S) == CHOOSE x \in S : \A y \in S : x <= y
Max(S) == CHOOSE x \in S : \A y \in S : x >= y

(* ---- projection to the node table: root id 1, child i id 10 i, leaf j of a Columns child 10 i + j ------------------------- *)
LeafNode(id, parent, idx, sel) ==
  [id |-> id, parent |-> parent, idx |-> idx, kind |-> "Leaf", leaf |-> 1, nch |-> 0, focus |-> -1, sel |-> sel, ok |-> 1, emptyok |-> 1]
ChildSeq(i) ==
  LET c == kids[i] IN
  IF IsCols(c)
  THEN <<[id |-> 10 * i, parent |-> 1, idx |-> i - 1, kind |-> "Columns", leaf |-> 0, nch |-> Len(c[2]), focus |-> cf[i],
          sel |-> IF ChildSel(c) THEN 1 ELSE 0, ok |-> 1, emptyok |-> 1]>>
       \o [j \in 1..Len(c[2]) |-> LeafNode(10 * i + j, 10 * i, j - 1, c[2][j])]
  ELSE <<LeafNode(10 * i, 1, i - 1, c[2][1])>>
RECURSIVE Flat(_)
Flat(i) == IF i > Len(kids) THEN <<>> ELSE ChildSeq(i) \o Flat(i + 1)
RootSelectable == mode = "lb" \/ \E i \in 1..Len(kids) : ChildSel(kids[i])
Table == <<[id |-> 1, parent |-> 0, idx |-> 0, kind |-> IF mode = "lb" THEN "ListBox" ELSE "Pile", leaf |-> 0, nch |-> Len(kids), focus |-> pf,
            sel |-> IF RootSelectable THEN 1 ELSE 0, ok |-> 1, emptyok |-> 1]>> \o Flat(1)

Init == /\ mode \in {"pile", "lb"}
        /\ kids \in (IF mode = "pile" THEN PileShapes ELSE ListShapes)
        /\ pf = IF kids = <<>> THEN -1 ELSE 0
        /\ cf = [i \in 1..Len(kids) |-> IF IsCols(kids[i]) /\ Len(kids[i][2]) > 0 THEN 0 ELSE -1]
        /\ pend = -1 /\ top = 0 /\ mv = <<>>
        /\ op = "init" /\ pre = <<>> /\ key = "-" /\ ate = 0 /\ ret = "-" /\ recv = {} /\ want = -1

NoKey == key' = "-" /\ ate' = 0 /\ ret' = "-" /\ recv' = {} /\ mv' = <<>>

(* ---- Pile root ------------------------------------------------------------------------------------------------------------ *)
VTarget(dir) ==   \* up / down in the Pile: nearest selectable sibling in that direction (0-based), -1: none
  LET cands == {i \in 1..Len(kids) : ChildSel(kids[i]) /\ (IF dir = "down" THEN i - 1 > pf ELSE i - 1 < pf)}
  IN IF cands = {} THEN -1 ELSE IF dir = "down" THEN Min(cands) - 1 ELSE Max(cands) - 1
HTarget(dir) ==   \* left / right in the focus Columns
  LET row == kids[pf + 1][2]  cur == cf[pf + 1]
      cands == {j \in 1..Len(row) : row[j] = 1 /\ (IF dir = "right" THEN j - 1 > cur ELSE j - 1 < cur)}
  IN IF cands = {} THEN -1 ELSE IF dir = "right" THEN Min(cands) - 1 ELSE Max(cands) - 1

(* the widths column_widths() answers for Columns child i: columns are taken from the left while they fit, but always up to the     *)
(* focus; then columns are dropped (width 0) from the left until the rest fits; columns cut off on the right are not listed           *)
NFit == (RowW + Div) \div (ColW + Div)
RowWidths(i) == LET n == Len(kids[i][2])
                    inc == Max({Min({n, NFit}), cf[i] + 1})
                    hid == Max({0, inc - NFit})
                IN [j \in 1..inc |-> IF j <= hid THEN 0 ELSE ColW]
MoveAsk(i, c) == LET ws == RowWidths(i) IN
  [id |-> 10 * i, widths |-> ws, sel |-> SubSeq(kids[i][2], 1, Len(ws)), acc |-> [j \in 1..Len(ws) |-> 1], div |-> Div,
   colk |-> "int", col |-> c, before |-> cf[i]]
\* the column (1-based) the Columns focuses, 0: refused
MovePick(i, c) == LET m == MoveAsk(i, c)  P == MovePicks(m, 1)
                      hid == Cardinality({j \in 1..Len(m.widths) : m.widths[j] = 0})
                  IN IF P = {} THEN 0
                     ELSE IF Variant = "shownIndex" /\ SetMax(P) > hid THEN SetMax(P) - hid     \* index among the shown columns
                     ELSE SetMax(P)
MoveDone(i, c) == LET p == MovePick(i, c) IN
  MoveAsk(i, c) @@ [ret |-> IF p = 0 THEN 0 ELSE 1, after |-> IF p = 0 THEN cf[i] ELSE p - 1]

PileKey(k, c) ==
  LET fsel   == pf >= 0 /\ ChildSel(kids[pf + 1])
      iscols == pf >= 0 /\ IsCols(kids[pf + 1])
      eaten  == fsel /\ ~iscols /\ k = "x" /\ kids[pf + 1][3] = 1
      ht     == IF fsel /\ iscols /\ k \in {"left", "right"} THEN HTarget(k) ELSE -1
      wrong  == Variant = "guardOnFocusChild" /\ pf >= 0 /\ ~fsel       \* the wrong design: everything but 'up' is 'down'
      vdir   == IF wrong THEN (IF k = "up" THEN "up" ELSE "down") ELSE k
      vt     == IF ~eaten /\ ht = -1 /\ vdir \in {"up", "down"} THEN VTarget(vdir) ELSE -1
  IN /\ mode = "pile" /\ RootSelectable          \* keys are sent to a selectable root only (as MainLoop does)
     /\ recv' = {1} \cup (IF fsel THEN {10 * (pf + 1)} ELSE {})
                    \cup (IF fsel /\ iscols /\ kids[pf + 1][2][cf[pf + 1] + 1] = 1 THEN {10 * (pf + 1) + cf[pf + 1] + 1} ELSE {})
     /\ ate' = IF eaten THEN 1 ELSE 0
     /\ LET into == vt >= 0 /\ IsCols(kids[vt + 1])  IN        \* moving onto a Columns: the cursor is sent into it at column c
        /\ mv' = IF into THEN <<MoveDone(vt + 1, c)>> ELSE <<>>
        /\ cf' = IF ht >= 0 THEN [cf EXCEPT ![pf + 1] = ht]
                 ELSE IF into /\ MovePick(vt + 1, c) > 0 THEN [cf EXCEPT ![vt + 1] = MovePick(vt + 1, c) - 1] ELSE cf
     /\ pf' = IF vt >= 0 THEN vt ELSE pf
     /\ ret' = IF eaten \/ ht >= 0 \/ vt >= 0 THEN "none" ELSE "same"
     /\ key' = k /\ op' = "key" /\ want' = -1 /\ UNCHANGED <<mode, kids, pend, top>>

PileAssign(p) ==      \* focus assignment: any child, selectable or not; invalid positions are rejected (IndexError) and change nothing
  /\ mode = "pile"
  /\ pf' = IF p >= 0 /\ p < Len(kids) THEN p ELSE pf
  /\ want' = IF p >= 0 /\ p < Len(kids) THEN p ELSE -1
  /\ op' = "assign" /\ NoKey /\ UNCHANGED <<mode, kids, cf, pend, top>>

PileDelete(i) ==      \* focus rule of the monitored list: the focus index stays, clipped to the new length
  /\ mode = "pile"
  /\ kids' = SubSeq(kids, 1, i - 1) \o SubSeq(kids, i + 1, Len(kids))
  /\ cf' = SubSeq(cf, 1, i - 1) \o SubSeq(cf, i + 1, Len(cf))
  /\ pf' = IF Len(kids) = 1 THEN -1 ELSE IF pf >= i THEN (IF pf - 1 < 0 THEN 0 ELSE pf - 1) ELSE (IF pf > Len(kids) - 2 THEN Len(kids) - 2 ELSE pf)
  /\ op' = "edit" /\ want' = -1 /\ NoKey /\ UNCHANGED <<mode, pend, top>>

PileInsert(i, c) ==   \* insertion before child i (1..Len+1): the focus stays on the same widget; an empty Pile focuses the new child
  /\ mode = "pile" /\ Len(kids) < MaxKids
  /\ kids' = SubSeq(kids, 1, i - 1) \o <<c>> \o SubSeq(kids, i, Len(kids))
  /\ cf' = SubSeq(cf, 1, i - 1) \o <<-1>> \o SubSeq(cf, i, Len(cf))
  /\ pf' = IF kids = <<>> THEN 0 ELSE IF i - 1 <= pf THEN pf + 1 ELSE pf
  /\ op' = "edit" /\ want' = -1 /\ NoKey /\ UNCHANGED <<mode, pend, top>>

(* ---- ListBox root ---------------------------------------------------------------------------------------------------------- *)
ClipTop(t) == IF t < 0 THEN 0 ELSE IF t > ListLen - View THEN ListLen - View ELSE t
\* <<walker position, first visible item>> once a pending assignment has been laid out
Laid ==
  IF pend = -1 \/ pend = pf THEN <<pf, top>>
  ELSE IF pf \in top..(top + View - 1) THEN <<pf, top>>                  \* near: the new focus is among the visible rows
  ELSE IF Variant = "staleWalker" THEN <<pend, top>>                      \* the wrong design: the walker stays where it was
  ELSE <<pf, ClipTop(pf - (View - 1) \div 2)>>                            \* far: placed in the middle of the view

ListAssign(p) ==
  /\ mode = "lb"
  /\ IF p >= 0 /\ p < Len(kids) THEN pf' = p /\ pend' = pf /\ want' = p ELSE UNCHANGED <<pf, pend>> /\ want' = -1
  /\ op' = "assign" /\ NoKey /\ UNCHANGED <<mode, kids, cf, top>>

ListLayout ==         \* a rendering
  /\ mode = "lb"
  /\ pf' = Laid[1] /\ top' = Laid[2] /\ pend' = -1
  /\ op' = "layout" /\ want' = -1 /\ NoKey /\ UNCHANGED <<mode, kids, cf>>

ListKey(k) ==         \* lays out first, offers the key to a selectable focus item, then navigates: the adjacent item (scrolling)
  LET w == Laid[1]  t == Laid[2]
      fsel  == kids[w + 1][2][1] = 1
      eaten == fsel /\ k = "x" /\ kids[w + 1][3] = 1
      nw    == IF eaten THEN w ELSE IF k = "up" /\ w > 0 THEN w - 1 ELSE IF k = "down" /\ w < Len(kids) - 1 THEN w + 1 ELSE w
  IN /\ mode = "lb"
     /\ recv' = {1} \cup (IF fsel THEN {10 * (w + 1)} ELSE {})
     /\ ate' = IF eaten THEN 1 ELSE 0
     /\ pf' = nw /\ top' = (IF nw < t THEN nw ELSE IF nw > t + View - 1 THEN nw - View + 1 ELSE t) /\ pend' = -1
     /\ ret' = IF eaten \/ nw # w THEN "none" ELSE "same"
     /\ key' = k /\ op' = "key" /\ want' = -1 /\ mv' = <<>> /\ UNCHANGED <<mode, kids, cf>>

Next == /\ pre' = Table
        /\ \/ \E k \in Keys : (\E c \in 0..(RowW - 1) : PileKey(k, c)) \/ ListKey(k)
           \/ \E p \in -1..Len(kids) : PileAssign(p) \/ ListAssign(p)
           \/ \E i \in 1..Len(kids) : PileDelete(i)
           \/ \E i \in 1..(Len(kids) + 1), c \in InsertKinds : PileInsert(i, c)
           \/ ListLayout
Spec == Init /\ [][Next]_vars

(* ---- the properties: the predicates of FocusTreeOps on the projected tables ------------------------------------------------ *)
FocusInv == FocusValid(Table)
ColsFocusInv == \A i \in 1..Len(kids) : IsCols(kids[i]) /\ Len(kids[i][2]) > 0 => (cf[i] >= 0 /\ cf[i] < Len(kids[i][2]))
\* (the ListBox items of the model are leaves: no cursor placement inside an item, nothing pending in the sense of the contract)
KeyOfferedOnPath == op = "key" => recv \subseteq Reach(pre, <<>>)
UnhandledKeyComesBack == op = "key" => UnhandledComesBack(pre, <<>>, key, ate, ret) /\ KeyMovesOnlyNavigators(pre, Table, <<>>, <<>>, key)
ArrowLandsOnSelectable == (op = "key" /\ key \in {"up", "down", "left", "right"}) => ArrowOnlyToSelectable(pre, Table, FALSE)
AssignmentKept == (op = "assign" /\ want >= 0) => AssignmentTakesEffect(FocusesOf(Table), Table, <<>>, 1, want)
\* a cursor sent into a Columns lands on the column the coordinate names, hidden columns or not
CursorIntoColumnsOk == MovesOk(mv)
LayoutKeeps == op = "layout" => LayoutKeepsFocus(FocusesOf(pre), Table, <<>>, <<>>)
==================================================================================
