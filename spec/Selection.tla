------------------------------- MODULE Selection -------------------------------
(* X01 state machine: a container (Pile / ListBox) of selection widgets.                   *)
(* Rows: NR1 radios of group 1, a Text divider, NR2 radios of group 2, NC two-state         *)
(* check boxes, NC3 three-state check boxes, NB buttons, NI selectable icons; up to MaxNew   *)
(* radios are appended later.  One action per public operation / user event; `last` carries  *)
(* the operation and its outcome, `log` the signals it emitted, in order.                    *)
(* Exhaustive runs identify states by View (without last / log); every predicate over the    *)
(* signals and the outcome is an action property, evaluated by TLC on every transition.       *)
(* Variant # "ok" selects a deliberately broken operator in SelectionOps that TLC must refute.*)
(* hook # NoHook: a user callback that itself sets another widget (re-entrancy, one level).   *)
EXTENDS SelectionOps

CONSTANTS NR1, NR2, NC, NC3, NB, NI,
          MaxNew,      \* radios that may be appended
          MaxRemove,   \* radios that may be taken out of their group list
          MaxOps,      \* bound on the number of operations (>= 50: unbounded, the graph is finite anyway)
          NL,          \* label ids 1..NL
          Keys,        \* keys pressed
          MouseEvs,    \* mouse event names
          Buttons,     \* mouse buttons
          SetVals,     \* states given to set_state (values outside 0..2 are invalid states)
          HookSet,     \* "none" | "radio" | "all": which re-entrant callbacks are explored
          InitMode,    \* "default" (as constructed) | "any" (every consistent assignment of states)
          CtorTrue,    \* TRUE: RadioButton(group, state=True) is also explored while the group has a selected member
          Variant      \* "ok" or a deliberately wrong variant

VARIABLES kind, home, grp, st, focus, lab, hook, log, last, nops
vars == <<kind, home, grp, st, focus, lab, hook, log, last, nops>>

Kind0 == [j \in 1..NR1 |-> "radio"] \o <<"text">> \o [j \in 1..NR2 |-> "radio"] \o [j \in 1..NC |-> "check"]
         \o [j \in 1..NC3 |-> "check3"] \o [j \in 1..NB |-> "button"] \o [j \in 1..NI |-> "icon"]
N0 == Len(Kind0)
Home0 == [w \in 1..N0 |-> IF w <= NR1 THEN 1 ELSE IF w > NR1 + 1 /\ w <= NR1 + 1 + NR2 THEN 2 ELSE 0]
Grp0 == << [j \in 1..NR1 |-> j], [j \in 1..NR2 |-> NR1 + 1 + j] >>
\* as constructed with the default "first True": the first radio of each group is selected
St0 == [w \in 1..N0 |-> IF Kind0[w] = "radio" /\ (w = 1 \/ w = NR1 + 2) THEN T ELSE F]
Stateful0 == {w \in 1..N0 : Kind0[w] \in StateKinds}

AtMostOne(s, g) == Cardinality(SelectedIn(s, g)) <= 1
AnySt == {s \in [1..N0 -> Valid] : /\ \A w \in 1..N0 : w \notin Stateful0 => s[w] = F
                                     /\ \A g \in 1..2 : AtMostOne(s, Grp0[g])}
HookSrcTgt == IF HookSet = "radio" THEN {w \in Stateful0 : Home0[w] = 1} ELSE Stateful0
Hooks == IF HookSet = "none" THEN {NoHook}
         ELSE {NoHook}
              \cup {[on |-> o, src |-> a, tgt |-> b, val |-> v] : o \in {"change", "postchange"}, a \in HookSrcTgt, b \in HookSrcTgt, v \in Valid}
              \cup {[on |-> "click", src |-> a, tgt |-> b, val |-> v] : a \in {w \in 1..N0 : Kind0[w] = "button"}, b \in HookSrcTgt, v \in Valid}

NoOp == MkOp("init", 0, 0, 0, "", "", 0, 0, 0, "", 0)
Init == /\ kind = Kind0 /\ home = Home0 /\ grp = Grp0
        /\ st \in (IF InitMode = "any" THEN AnySt ELSE {St0})
        /\ focus \in (IF InitMode = "any" THEN {w \in 1..N0 : Kind0[w] # "text"} ELSE {1})
        /\ lab = [w \in 1..N0 |-> 1]
        /\ hook \in Hooks
        /\ log = <<>>
        /\ last = [op |-> NoOp, res |-> "", exc |-> "", tog |-> 0]
        /\ nops = 0

World == [kind |-> kind, home |-> home, grp |-> grp, st |-> st, focus |-> focus, lab |-> lab, hook |-> hook, variant |-> Variant]
Stateful == {w \in 1..Len(kind) : kind[w] \in StateKinds}
Rows == 1..Len(kind)

Do(op) ==
  LET r == Apply(World, op) IN
  /\ nops < MaxOps
  /\ nops' = IF MaxOps >= 50 THEN 0 ELSE nops + 1
  /\ kind' = r.kind /\ home' = r.home /\ grp' = r.grp /\ st' = r.st /\ focus' = r.focus /\ lab' = r.lab
  /\ log' = r.log
  /\ last' = [op |-> op, res |-> r.res, exc |-> r.exc, tog |-> r.tog]
  /\ UNCHANGED hook

(* ---- one action per public operation / user event ---- *)
SetStateA(w, s, cb)  == w \in Stateful /\ st[w] # s /\ Do(MkOp("set_state", w, s, cb, "", "", 0, 0, 0, "", 0))
SetSameA(w)          == w \in Stateful /\ Do(MkOp("set_state", w, st[w], 1, "", "", 0, 0, 0, "", 0))   \* no change requested
ToggleA(w)           == w \in Stateful /\ Do(MkOp("toggle", w, 0, 0, "", "", 0, 0, 0, "", 0))
WKeyA(w, k)          == kind[w] # "text" /\ Do(MkOp("wkey", w, 0, 0, k, "", 0, 0, 0, "", 0))
KeyA(k)              == Do(MkOp("key", 0, 0, 0, k, "", 0, 0, 0, "", 0))
WMouseA(w, ev, b)    == Do(MkOp("wmouse", w, 0, 0, "", ev, b, 0, 0, "", 0))
MouseA(ev, b, row)   == Do(MkOp("mouse", 0, 0, 0, "", ev, b, row, 0, "", 0))
NewRadioA(g, mode)   == /\ Len(kind) < N0 + MaxNew
                        /\ (mode = "true" /\ SelectedIn(st, grp[g]) # {}) => CtorTrue
                        /\ Do(MkOp("new_radio", 0, 0, 0, "", "", 0, 0, g, mode, 1))
Removed == {w \in Rows : kind[w] = "radio" /\ ~InSeq(w, grp[home[w]])}
RemoveA(w)           == kind[w] = "radio" /\ InSeq(w, grp[home[w]]) /\ Cardinality(Removed) < MaxRemove /\ Do(MkOp("remove", w, 0, 0, "", "", 0, 0, 0, "", 0))
SetLabelA(w, L)      == kind[w] \in StateKinds \cup {"button"} /\ lab[w] # L /\ Do(MkOp("set_label", w, 0, 0, "", "", 0, 0, 0, "", L))

Next ==
  \/ \E w \in Rows, s \in SetVals, cb \in {0, 1} : SetStateA(w, s, cb)
  \/ \E w \in Rows : SetSameA(w) \/ ToggleA(w) \/ RemoveA(w)
  \/ \E w \in Rows, k \in Keys : WKeyA(w, k)
  \/ \E k \in Keys : KeyA(k)
  \/ \E w \in Rows, ev \in MouseEvs, b \in Buttons : WMouseA(w, ev, b)
  \/ \E ev \in MouseEvs, b \in Buttons, row \in 1..(Len(kind) + 1) : MouseA(ev, b, row)
  \/ \E g \in 1..2, mode \in {"first", "true", "false"} : NewRadioA(g, mode)
  \/ \E w \in Rows, L \in 1..NL : SetLabelA(w, L)
Spec == Init /\ [][Next]_vars

(* behaviour export (tlc -simulate): one randomly chosen enabled operation per step *)
Z == 0 * nops
Pick(S) == RandomElement(S)
SimOps ==
  {MkOp("set_state", w, s, cb, "", "", 0, 0, 0, "", 0) : w \in Stateful, s \in SetVals, cb \in {0, 1}}
  \cup {MkOp("toggle", w, 0, 0, "", "", 0, 0, 0, "", 0) : w \in Stateful}
  \cup {MkOp("wkey", w, 0, 0, k, "", 0, 0, 0, "", 0) : w \in {x \in Rows : kind[x] # "text"}, k \in Keys}
  \cup {MkOp("key", 0, 0, 0, k, "", 0, 0, 0, "", 0) : k \in Keys}
  \cup {MkOp("wmouse", w, 0, 0, "", ev, b, 0, 0, "", 0) : w \in Rows, ev \in MouseEvs, b \in Buttons}
  \cup {MkOp("mouse", 0, 0, 0, "", ev, b, row, 0, "", 0) : ev \in MouseEvs, b \in Buttons, row \in 1..(Len(kind) + 1)}
  \cup {MkOp("new_radio", 0, 0, 0, "", "", 0, 0, g, mode, 1) : g \in {x \in 1..2 : Len(kind) < N0 + MaxNew},
                                                              mode \in {"first", "true", "false"}}
  \cup {MkOp("remove", w, 0, 0, "", "", 0, 0, 0, "", 0) : w \in {x \in Rows : kind[x] = "radio" /\ InSeq(x, grp[home[x]]) /\ Cardinality(Removed) < MaxRemove}}
  \cup {MkOp("set_label", w, 0, 0, "", "", 0, 0, 0, "", L) : w \in {x \in Rows : kind[x] \in StateKinds \cup {"button"}}, L \in 1..NL}
SimOK(op) == (op.n = "new_radio" /\ op.mode = "true" /\ SelectedIn(st, grp[op.g]) # {}) => CtorTrue
SimNext == \E op \in {Pick({o \in SimOps : SimOK(o)})} : Do(op)
SimSpec == Init /\ [][SimNext]_vars

(* the user only: keys and mouse on the container; used for the liveness property *)
ClickOn(w) == MouseA("mouse press", 1, w)
UserNext == (\E k \in Keys : KeyA(k)) \/ (\E ev \in MouseEvs, b \in Buttons, row \in 1..(Len(kind) + 1) : MouseA(ev, b, row))
UserSpec == Init /\ [][UserNext]_vars /\ \A w \in 1..N0 : WF_vars(ClickOn(w))

(* ---------------------------------- invariants ---------------------------------- *)
TypeOK ==
  /\ Len(kind) = Len(st) /\ Len(kind) = Len(home) /\ Len(kind) = Len(lab)
  /\ \A w \in Rows : st[w] \in Valid /\ (w \notin Stateful => st[w] = F)
  /\ focus \in Rows
  /\ \A g \in 1..2 : \A j \in 1..Len(grp[g]) : kind[grp[g][j]] = "radio" /\ home[grp[g][j]] = g

\* at most one member of a group list is selected whenever a public call has returned
GroupAtMostOne == \A g \in 1..2 : AtMostOne(st, grp[g])
FocusSelectable == kind[focus] # "text"
\* The remaining state predicates talk about `log` / `last` (the signals and the outcome of the operation that led
\* here).  The exhaustive runs identify states by View (everything except log / last: otherwise every state would be
\* multiplied by the operations that lead to it), and TLC evaluates state invariants only on the first representative
\* of a view class -- so they are ALSO stated as action properties over log' / last' (P_Log below), which TLC
\* evaluates on every transition it generates.
\* Inside callbacks two members can be seen selected: the code selects the new button before it clears the old one,
\* so the 'postchange' callback of the new button and the 'change' callback of the old one see two selected buttons
\* (as built; the documentation does not say).  StrictInCallbacks is refuted by TLC; at most two are ever seen.
StrictInCallbacks == MaxSelectedSeen(log, grp) <= 1
InCallbacksAtMostTwo == MaxSelectedSeen(log, grp) <= 2
ChangeFirst == ChangeBeforeVisible(log)
PostchangeLast == PostchangeAfter(log)
SignalsPaired == Paired(log)
RejectedIsSilent == last.exc # "" => log = <<>>
ClickOnlyFromButtons == \A j \in 1..Len(log) : log[j].sig = "click" => kind[log[j].w] = "button"
View == <<kind, home, grp, st, focus, lab, hook, nops>>

(* ------------------------------- action properties ------------------------------- *)
Op == last'.op
Silent(w) == Op.n = "set_state" /\ Op.cb = 0 /\ Op.w = w
\* 'change' (and 'postchange') exactly when the state of a widget really changes -- unless do_callback=False was given
\* for that widget.  Stated for runs without a re-entrant callback (with one a widget may change more than once).
ChangeIffChanged ==
  hook = NoHook =>
    \A w \in 1..Len(st) :
      /\ Changes(log', w) = (IF st'[w] # st[w] /\ ~Silent(w) THEN 1 ELSE 0)
      /\ Posts(log', w) = Changes(log', w)
      /\ \A j \in 1..Len(log') : (log'[j].w = w /\ log'[j].sig = "change") => (log'[j].arg = st'[w] /\ log'[j].snap[w] = st[w])
      /\ \A j \in 1..Len(log') : (log'[j].w = w /\ log'[j].sig = "postchange") => (log'[j].arg = st[w] /\ log'[j].snap[w] = st'[w])
\* do_callback=False: no signal from the widget whose state is set
\* (a re-entrant callback that sets that very widget again is a call of its own, with its own signals)
SilentIsSilent == hook = NoHook => \A w \in 1..Len(st) : Silent(w) => (Changes(log', w) = 0 /\ Posts(log', w) = 0)
\* an invalid state is rejected with CheckBoxError and nothing changes
InvalidRejected ==
  (Op.n = "set_state" /\ Op.s \notin Valid) => (last'.exc = "CheckBoxError" /\ st' = st /\ focus' = focus /\ log' = <<>>)
\* a valid state is what get_state() returns afterwards (no re-entrant callback)
SetStateSets == (Op.n = "set_state" /\ Op.s \in Valid /\ hook = NoHook) => (st'[Op.w] = Op.s /\ last'.exc = "")
\* selecting a radio clears every other member of its group list; other widgets are untouched
\* (set_state(True) on the button that is selected already is "no change": siblings set to "mixed" by program stay)
SelectClearsOthers ==
  (Op.n = "set_state" /\ Op.s = T /\ st[Op.w] # T /\ kind[Op.w] = "radio" /\ hook = NoHook) =>
     \A x \in 1..Len(st) : x # Op.w => st'[x] = (IF InSeq(x, grp[home[Op.w]]) THEN F ELSE st[x])
\* the documented toggle order: False -> True -> (mixed ->) False; a radio becomes True
ToggleOrder ==
  (last'.tog # 0 /\ hook = NoHook) =>
     LET w == last'.tog IN
       st'[w] = (CASE kind[w] = "radio" -> T
                   [] kind[w] = "check3" -> (CASE st[w] = F -> T [] st[w] = T -> M [] OTHER -> F)
                   [] OTHER -> (IF st[w] = F THEN T ELSE F))
\* keys the widget does not use are returned and change nothing; used ones return None
KeysReturned ==
  Op.n = "wkey" =>
    IF Op.key \in Activate /\ kind[Op.w] # "icon"
    THEN last'.res = "" /\ (kind[Op.w] = "button" => Clicks(log', Op.w) = 1) /\ (kind[Op.w] \in StateKinds => last'.tog = Op.w)
    ELSE last'.res = Op.key /\ st' = st /\ log' = <<>>
\* through the container: 'up'/'down' move the focus to the neighbouring selectable row or are returned at the ends
ContainerKeys ==
  Op.n = "key" =>
    /\ (Op.key \in {"up", "down"} =>
          LET n == NextSel(kind, focus, IF Op.key = "down" THEN 1 ELSE -1)
          IN (IF n = 0 THEN focus' = focus /\ last'.res = Op.key ELSE focus' = n /\ last'.res = "") /\ st' = st /\ log' = <<>>)
    /\ (Op.key \notin {"up", "down"} => focus' = focus)
    /\ (Op.key \notin Activate \cup {"up", "down"} => last'.res = Op.key /\ st' = st /\ log' = <<>>)
\* the mouse: only a button-1 press acts; it focuses the selectable row it hits and toggles / clicks it
MouseRule ==
  Op.n = "mouse" =>
    LET on == Op.row <= Len(kind)
        hit == on /\ IsPress(Op.ev) /\ Op.btn = 1
    IN /\ focus' = (IF hit /\ kind[Op.row] # "text" THEN Op.row ELSE focus)
       /\ last'.res = (IF hit /\ kind[Op.row] \in StateKinds \cup {"button"} THEN "True" ELSE "False")
       /\ (~hit => st' = st /\ log' = <<>>)
       /\ (hit /\ kind[Op.row] = "button" => Clicks(log', Op.row) = 1)
       /\ (hit /\ kind[Op.row] \in StateKinds => last'.tog = Op.row)
\* the first button of a group is selected, later ones are not (default "first True"); the new button joins the list
NewRadioRule ==
  Op.n = "new_radio" =>
    LET id == Len(kind) + 1 IN
    /\ Len(kind') = id /\ kind'[id] = "radio" /\ grp'[Op.g] = Append(grp[Op.g], id)
    /\ (hook = NoHook => st'[id] = (IF Op.mode = "first" THEN (IF grp[Op.g] = <<>> THEN T ELSE F) ELSE IF Op.mode = "true" THEN T ELSE F))
    /\ Changes(log', id) = 0
\* a group that has a selected member keeps exactly one under user events and under set_state(True)
\* (nobody sets it False / "mixed" / removes it programmatically, no re-entrant callback)
\* Stated while every radio is a member of the list it refers to: a radio taken out of its list still clears the list
\* when it is selected (as built; the documentation does not talk about removal), so the list is left without selection.
AllMembers == \A w \in Rows : kind[w] = "radio" => InSeq(w, grp[home[w]])
KeepsSelection ==
  (hook = NoHook /\ AllMembers /\ (Op.n \in {"key", "wkey", "mouse", "wmouse", "toggle", "set_label"} \/ (Op.n = "set_state" /\ Op.s = T))) =>
     \A g \in 1..2 : SelectedIn(st, grp[g]) # {} => Cardinality(SelectedIn(st', grp'[g])) = 1
\* the same under a re-entrant callback that only ever selects (val = True): NOT guaranteed by the code -- a callback
\* on the de-selection of the old button that selects a third one leaves the group with no selection (TLC counterexample)
KeepsSelectionReentrant ==
  (hook.val = T /\ AllMembers /\ Op.n \in {"key", "wkey", "mouse", "wmouse", "toggle"}) =>
     \A g \in 1..2 : SelectedIn(st, grp[g]) # {} => Cardinality(SelectedIn(st', grp'[g])) = 1
LabelRule == \A w \in 1..Len(lab) : lab'[w] = (IF Op.n = "set_label" /\ Op.w = w THEN Op.L ELSE lab[w])
OnlyLabelsBySetLabel == Op.n = "set_label" => (st' = st /\ focus' = focus /\ log' = <<>>)

P_Strict == [][MaxSelectedSeen(log', grp') <= 1]_vars          \* refuted on purpose (see StrictInCallbacks)
P_AtMostTwoSeen == [][hook = NoHook => MaxSelectedSeen(log', grp') <= 2]_vars
\* with one level of re-entrancy (a callback on the de-selection of the old button selecting a third one) three
P_AtMostThreeSeen == [][MaxSelectedSeen(log', grp') <= 3]_vars
P_ChangeFirst == [][ChangeBeforeVisible(log')]_vars
P_PostchangeLast == [][PostchangeAfter(log')]_vars
P_SignalsPaired == [][Paired(log')]_vars
P_RejectedIsSilent == [][last'.exc # "" => log' = <<>>]_vars
P_ClickOnlyFromButtons == [][\A j \in 1..Len(log') : log'[j].sig = "click" => kind'[log'[j].w] = "button"]_vars
P_ChangeIffChanged == [][ChangeIffChanged]_vars
P_SilentIsSilent == [][SilentIsSilent]_vars
P_InvalidRejected == [][InvalidRejected]_vars
P_SetStateSets == [][SetStateSets]_vars
P_SelectClearsOthers == [][SelectClearsOthers]_vars
P_ToggleOrder == [][ToggleOrder]_vars
P_KeysReturned == [][KeysReturned]_vars
P_ContainerKeys == [][ContainerKeys]_vars
P_MouseRule == [][MouseRule]_vars
P_NewRadioRule == [][NewRadioRule]_vars
P_KeepsSelection == [][KeepsSelection]_vars
P_KeepsSelectionReentrant == [][KeepsSelectionReentrant]_vars
P_LabelRule == [][LabelRule]_vars
P_OnlyLabelsBySetLabel == [][OnlyLabelsBySetLabel]_vars

(* ---------------------------------- liveness ---------------------------------- *)
\* a check box that is clicked again and again returns to "unchecked" again and again (the documented cycle closes);
\* a radio that is clicked is selected
CycleCloses == \A w \in 1..N0 : (Kind0[w] \in {"check", "check3"} => []<>(st[w] = F)) /\ (Kind0[w] = "radio" => []<>(st[w] = T))

(* constant-level laws, checked once *)
ASSUME MarkersDistinct ==
  \A k1, k2 \in {"check", "radio"}, s1, s2 \in Valid : (Marker(k1, s1) = Marker(k2, s2)) => (k1 = k2 /\ s1 = s2)
ASSUME CycleLaw ==
  /\ NextState("check3", NextState("check3", NextState("check3", F, "ok"), "ok"), "ok") = F
  /\ NextState("check", NextState("check", F, "ok"), "ok") = F
  /\ \A s \in Valid : NextState("radio", s, "ok") = T
=============================================================================
