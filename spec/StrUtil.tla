------------------------------- MODULE StrUtil -------------------------------
(* C11 consistency model.  TLC enumerates every text of at most MaxLen characters over the  *)
(* character classes below and every pair of boundaries i <= j; the invariants quantify over *)
(* every target column and every column range.  Checked:                                      *)
(*   - the laws of the property hold for the contract's reference operators,                  *)
(*   - the predicates pin the result down (up to zero-width characters at the edge),          *)
(*   - the algorithms AS URWID CODES THEM (calc_trim_text on top of calc_text_pos, the        *)
(*     double-byte offset search, the SO/SI charset splitter) satisfy the contract,           *)
(*   - the active encoding is state: action SetEncoding re-reads the bytes of the text under  *)
(*     a single-byte encoding (and back); the laws hold for whichever reading is active and   *)
(*     an implementation that keeps answering for the PREVIOUS encoding is refuted,           *)
(*   - deliberately wrong variants are refuted: invariant WrongVariantsRefuted HOLDS (every  *)
(*     wrong variant has a refuting text), each Wrong*Accepted invariant alone is VIOLATED.   *)
EXTENDS StrUtilOps

CONSTANTS ClassIds,   \* subset of 1..8, see Class
          MaxLen

\* id -> character class   (cp / enc are concrete representatives used by the Encode laws)
Class == <<
  [w |-> 1, b |-> 1, cp |-> 97,     enc |-> <<97>>],                   \* 1 ASCII
  [w |-> 1, b |-> 2, cp |-> 233,    enc |-> <<195, 169>>],             \* 2 two-byte, one column (Latin-1 letter in UTF-8)
  [w |-> 2, b |-> 3, cp |-> 23383,  enc |-> <<229, 173, 151>>],        \* 3 CJK wide, three bytes
  [w |-> 0, b |-> 2, cp |-> 769,    enc |-> <<204, 129>>],             \* 4 combining, zero width
  [w |-> 1, b |-> 3, cp |-> 9532,   enc |-> <<226, 148, 188>>],        \* 5 DEC line-drawing glyph
  [w |-> 2, b |-> 4, cp |-> 128512, enc |-> <<240, 159, 152, 128>>],   \* 6 emoji, four bytes, wide
  [w |-> 2, b |-> 2, cp |-> 23383,  enc |-> <<187, 250>>],             \* 7 double-byte CJK (EUC-JP)
  [w |-> 1, b |-> 1, cp |-> 9472,   enc |-> <<63>>]                    \* 8 DEC glyph the codec cannot encode
>>

VARIABLES text, i, j,
          enc      \* the active encoding: "own" = the one the text was written in, "narrow" = a single-byte encoding
vars == <<text, i, j, enc>>

\* texts grow one character at a time from the empty text with i = j = 0; from there any boundary pair is picked
\* (built with Next rather than as initial states so that TLC's workers share the invariant evaluation)
Init == text = <<>> /\ i = 0 /\ j = 0 /\ enc = "own"
\* urwid.set_encoding: the bytes stay, what they mean changes (the texts are written under "own"; under "narrow" they are read)
SetEncoding == /\ i = 0 /\ j = 0 /\ text # <<>>
               /\ enc' = IF enc = "own" THEN "narrow" ELSE "own"
               /\ UNCHANGED <<text, i, j>>
Next == \/ /\ i = 0 /\ j = 0 /\ enc = "own"
           /\ \/ /\ Len(text) < MaxLen
                 /\ \E c \in ClassIds : text' = Append(text, Class[c])
                 /\ UNCHANGED <<i, j>>
              \/ /\ \E a \in 0..Len(text) : \E b \in a..Len(text) : <<a, b>> # <<0, 0>> /\ i' = a /\ j' = b
                 /\ UNCHANGED text
           /\ UNCHANGED enc
        \/ SetEncoding
Spec == Init /\ [][Next]_vars

s == Offs(text, i)
e == Offs(text, j)
W == WidthIdx(text, i, j)
Cols == 0..(W + 1)
Ranges == {r \in (0..W) \X (0..W) : r[1] < r[2]}
U == AsStr(text)

\* ---------------------------------------------------------------- laws of the property on the reference
Additive == \A m \in i..j : CalcWidth(text, s, e) = CalcWidth(text, s, Offs(text, m)) + CalcWidth(text, Offs(text, m), e)
WidthStrBytesAgree == CalcWidth(U, i, j) = CalcWidth(text, s, e)
RefPosOK == \A col \in Cols : LET r == RefPos(text, s, e, col) IN PosOK(text, s, e, col, r[1], r[2])
\* whatever satisfies the clauses differs from the reference only by zero-width characters
PosPinned == \A col \in Cols : \A rp \in s..e : \A rc \in 0..col :
               PosOK(text, s, e, col, rp, rc) =>
                 LET r == RefPos(text, s, e, col) IN rc = r[2] /\ rp <= r[1] /\ CalcWidth(text, rp, r[1]) = 0
PosStrBytesAgree == \A col \in Cols : LET u == RefPos(U, i, j, col) IN RefPos(text, s, e, col) = <<Offs(text, u[1]), u[2]>>
NextPrev == i < j => /\ IsBoundary(text, MoveNext(text, s)) /\ MoveNext(text, s) <= e
                     /\ MovePrev(text, MoveNext(text, s)) = s
                     /\ MoveNext(text, MovePrev(text, e)) = e
                     /\ MoveNext(text, s) = Offs(text, MoveNext(U, i))
RefTrimOK == \A r \in Ranges : LET t == RefTrim(text, s, e, r[1], r[2]) IN TrimOK(text, s, e, r[1], r[2], t[1], t[2], t[3], t[4])
TrimPinned == \A r \in Ranges : \A rs \in s..e : \A re \in rs..e : \A pl \in {0, 1} : \A pr \in {0, 1} :
                TrimOK(text, s, e, r[1], r[2], rs, re, pl, pr) =>
                  LET t == RefTrim(text, s, e, r[1], r[2]) IN
                    /\ pl = t[3] /\ pr = t[4] /\ CalcWidth(text, rs, re) = CalcWidth(text, t[1], t[2])
                    /\ CalcWidth(text, Min({rs, t[1]}), Max({rs, t[1]})) = 0
TrimStrBytesAgree == \A r \in Ranges : LET u == RefTrim(U, i, j, r[1], r[2]) IN
                       RefTrim(text, s, e, r[1], r[2]) = <<Offs(text, u[1]), Offs(text, u[2]), u[3], u[4]>>

\* ---------------------------------------------------------------- one byte string, two encodings
\* what the contract demands of the SAME bytes once a single-byte encoding is active: the character boundaries of the old
\* reading are boundaries of the new one, every byte is one column (whatever the bytes meant before), the offset search counts
\* bytes and stepping moves one byte -- all of it through the very operators the other laws use, on the active reading
Active == IF enc = "own" THEN text ELSE NarrowView(AllBytes(text))
ReadingsOfOneByteString ==
  enc = "narrow" =>
    LET nv == Active IN
    /\ SameBytes(nv, text) /\ Total(nv) = Total(text) /\ Boundaries(text) \subseteq Boundaries(nv)
    /\ \A a \in 0..Len(text) : \A b \in a..Len(text) :
         LET s0 == Offs(text, a)
             e0 == Offs(text, b)
         IN /\ CalcWidth(nv, s0, e0) = e0 - s0
            /\ \A m \in a..b : CalcWidth(nv, s0, e0) = CalcWidth(nv, s0, Offs(text, m)) + CalcWidth(nv, Offs(text, m), e0)
            /\ \A col \in 0..(e0 - s0 + 1) :
                 LET r == RefPos(nv, s0, e0, col) IN
                 PosOK(nv, s0, e0, col, r[1], r[2]) /\ r = <<Min({e0, s0 + col}), Min({e0 - s0, col})>>
            /\ (a < b => MoveNext(nv, s0) = s0 + 1 /\ MovePrev(nv, e0) = e0 - 1)

\* ---------------------------------------------------------------- the algorithms as coded satisfy the contract
\* util.calc_trim_text, with calc_text_pos idealised as RefPos
AsCodedTrim(cs, s0, e0, sc, ec) ==
  LET p1 == IF sc > 0 THEN RefPos(cs, s0, e0, sc) ELSE <<s0, 0>>
      pl == IF sc > 0 /\ p1[2] < sc THEN 1 ELSE 0
      sp == IF pl = 1 THEN RefPos(cs, s0, e0, sc + 1)[1] ELSE p1[1]
      run == ec - sc - pl
      p2 == RefPos(cs, sp, e0, run)
  IN <<sp, p2[1], pl, IF p2[2] < run THEN 1 ELSE 0>>
AsCodedTrimOK == \A r \in Ranges : LET t == AsCodedTrim(text, s, e, r[1], r[2]) IN TrimOK(text, s, e, r[1], r[2], t[1], t[2], t[3], t[4])

\* str_util.calc_text_pos for "wide"/"narrow" byte strings: one column per byte, step back out of a second half
DoubleByteText == \A k \in 1..Len(text) : text[k].w = text[k].b
AsCodedWidePos(cs, s0, e0, col) ==
  LET p == s0 + col IN
  IF p >= e0 THEN <<e0, e0 - s0>>
  ELSE IF WithinDouble(cs, p) = 2 THEN <<p - 1, p - 1 - s0>> ELSE <<p, p - s0>>
AsCodedWidePosOK == DoubleByteText => \A col \in Cols : LET r == AsCodedWidePos(text, s, e, col) IN PosOK(text, s, e, col, r[1], r[2])

\* util.apply_target_encoding
EncodeLaws ==
  (i = 0 /\ j = 0) => \A dec \in BOOLEAN :
    LET bytes == EncodeBytes(text, dec)
        tags == EncodeTags(text, dec)
        ac == AsCodedEncode(text, dec)
    IN /\ Len(bytes) = Len(tags)
       /\ RunTotal(Rle(tags)) = Len(bytes)                      \* total run lengths = encoded length
       /\ Expand(Rle(tags)) = tags
       /\ \A k \in 1..Len(Rle(tags)) - 1 : Rle(tags)[k][1] # Rle(tags)[k + 1][1]
       /\ ac.out = bytes /\ ac.tags = tags                      \* as coded = contract
       /\ (dec => \A k \in 1..Len(text) : IsDec(text[k].cp) =>  \* DEC glyph -> alternate byte, charset "0"
                    LET o == Len(EncodeBytes(SubSeq(text, 1, k - 1), dec)) + 1 IN bytes[o] = DecAlt(text[k].cp) /\ tags[o] = "0")
       /\ (~dec => \A o \in 1..Len(tags) : tags[o] = "n")

\* ---------------------------------------------------------------- deliberately wrong variants: the contract must REFUTE them
\* (each *AcceptedAt says "the wrong variant satisfies the contract on text cs between boundaries a, b")
RangesOf(w) == {r \in (0..w) \X (0..w) : r[1] < r[2]}
\* offset search that counts units instead of columns (forgets double width / multi-byte)
WrongPosUnits(cs, s0, e0, col) == LET p == IF s0 + col > e0 THEN e0 ELSE s0 + col IN <<p, p - s0>>
WrongPosAcceptedAt(cs, a, b) ==
  LET s0 == Offs(cs, a)  e0 == Offs(cs, b) IN
  \A col \in 0..(WidthIdx(cs, a, b) + 1) : LET r == WrongPosUnits(cs, s0, e0, col) IN PosOK(cs, s0, e0, col, r[1], r[2])
\* offset search that stops one character late when a wide character does not fit
WrongPosLate(cs, s0, e0, col) ==
  LET ks == Idx(cs, s0)
      k == Max({n \in ks..Idx(cs, e0) : n = ks \/ WidthIdx(cs, ks, n - 1) < col \/ WidthIdx(cs, ks, n) <= col})
  IN <<Offs(cs, k), WidthIdx(cs, ks, k)>>
WrongPosLateAcceptedAt(cs, a, b) ==
  LET s0 == Offs(cs, a)  e0 == Offs(cs, b) IN
  \A col \in 0..(WidthIdx(cs, a, b) + 1) : LET r == WrongPosLate(cs, s0, e0, col) IN PosOK(cs, s0, e0, col, r[1], r[2])
\* previous character = one unit back
WrongPrevAcceptedAt(cs, a, b) == a < b => (MoveNext(cs, Offs(cs, a)) - 1 = Offs(cs, a))
\* trim with the padding flags exchanged
WrongTrimAcceptedAt(cs, a, b) ==
  LET s0 == Offs(cs, a)  e0 == Offs(cs, b) IN
  \A r \in RangesOf(WidthIdx(cs, a, b)) : LET t == RefTrim(cs, s0, e0, r[1], r[2]) IN TrimOK(cs, s0, e0, r[1], r[2], t[1], t[2], t[4], t[3])
\* trim that never pads (returns the characters that fit)
WrongTrimNoPadAcceptedAt(cs, a, b) ==
  LET s0 == Offs(cs, a)  e0 == Offs(cs, b) IN
  \A r \in RangesOf(WidthIdx(cs, a, b)) : LET t == RefTrim(cs, s0, e0, r[1], r[2]) IN TrimOK(cs, s0, e0, r[1], r[2], t[1], t[2], 0, 0)
\* a width function that keeps the answer it gave for these bytes under the PREVIOUS encoding (a result cache that does not
\* know about set_encoding): accepted only where the old reading and the single-byte reading happen to be equally wide
WrongStaleWidthAcceptedAt(cs, a, b) ==
  LET s0 == Offs(cs, a)  e0 == Offs(cs, b) IN CalcWidth(cs, s0, e0) = CalcWidth(NarrowView(AllBytes(cs)), s0, e0)
\* charset runs that forget the alternate charset
WrongEncodeAcceptedAt(cs) == Rep("n", Len(EncodeBytes(cs, TRUE))) = EncodeTags(cs, TRUE)

\* as invariants (each one alone must be VIOLATED by TLC) ...
WrongPosAccepted == WrongPosAcceptedAt(text, i, j)
WrongPosLateAccepted == WrongPosLateAcceptedAt(text, i, j)
WrongPrevAccepted == WrongPrevAcceptedAt(text, i, j)
WrongTrimAccepted == WrongTrimAcceptedAt(text, i, j)
WrongTrimNoPadAccepted == WrongTrimNoPadAcceptedAt(text, i, j)
WrongStaleWidthAccepted == WrongStaleWidthAcceptedAt(text, i, j)
\* ... and as one invariant that HOLDS: evaluated once, in the initial state, every wrong variant has a refuting text
SmallTexts == UNION {[1..n -> {Class[c] : c \in ClassIds}] : n \in 0..2}
Refutes(V(_, _, _)) == \E cs \in SmallTexts : \E a \in 0..Len(cs) : \E b \in a..Len(cs) : ~V(cs, a, b)
WrongVariantsRefuted ==
  (text = <<>> /\ i = 0 /\ j = 0 /\ enc = "own") =>
     /\ Refutes(WrongPosAcceptedAt) /\ Refutes(WrongPosLateAcceptedAt) /\ Refutes(WrongPrevAcceptedAt)
     /\ Refutes(WrongTrimAcceptedAt) /\ Refutes(WrongTrimNoPadAcceptedAt) /\ Refutes(WrongStaleWidthAcceptedAt)
     /\ \E cs \in SmallTexts : ~WrongEncodeAcceptedAt(cs)
=============================================================================
