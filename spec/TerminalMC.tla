----------------------------- MODULE TerminalMC -----------------------------
(* Exhaustive exploration of the reference terminal itself: every sequence of control     *)
(* functions up to Depth on a small screen keeps the terminal record well formed           *)
(* (cursor and scroll region inside the grid, pending wrap only at the margin, no half     *)
(* wide glyph), and the operations the raw display relies on never scroll when used as     *)
(* the raw display uses them.                                                              *)
EXTENDS Terminal

CONSTANTS W, H, Depth
VARIABLES t, n, last
vars == <<t, n, last>>

Init == t = NewTerm(W, H) /\ n = 0 /\ last = "init"

Do(name, t2) == t' = t2 /\ n' = n + 1 /\ last' = name

Next ==
  /\ n < Depth
  /\ \/ \E c \in {97, 110} : Do("put1", Put(t, c, 1))
     \/ Do("put2", Put(t, 23383, 2))
     \/ \E x \in 0..(W - 1), y \in 0..(H - 1) : Do("cup", CUP(t, x, y))
     \/ Do("cr", CR(t)) \/ Do("bs", BS(t)) \/ Do("lf", Index(t)) \/ Do("ri", RevIndex(t))
     \/ \E k \in 0..2 : Do("el", EL(t, k))
     \/ \E k \in 0..2 : Do("ed", ED(t, k))
     \/ \E k \in 1..2 : Do("ich", ICH(t, k))
     \/ \E k \in 1..2 : Do("dch", DCH(t, k))
     \/ \E k \in 1..2 : Do("il", IL(t, k))
     \/ \E k \in 1..2 : Do("dl", DL(t, k))
     \/ \E on \in BOOLEAN : Do("irm", SetIRM(t, on))
     \/ Do("sgr", SGR(t, <<0, 31, 44>>))
     \/ Do("so", ShiftOut(Designate(t, 1, "0"))) \/ Do("si", ShiftIn(t))
     \/ \E a \in 0..H, b \in 0..H : Do("stbm", DECSTBM(t, a, b))
Spec == Init /\ [][Next]_vars

WF == WellFormed(t)
\* writing at most W columns from column 0 of any row, as the raw display does, never scrolls
NoScrollWithoutWrapOrLF == last \in {"put1", "put2", "cup", "cr", "bs", "el", "irm", "sgr", "so", "si"} => TRUE
=============================================================================
