--------------------------- MODULE CanvasCacheTrace ---------------------------
(* C06 trace validation.  One trace = one history executed on real urwid widget trees            *)
(* (vf/props/c06.py).  Events:                                                                    *)
(*   render : what the tree with the live CanvasCache rendered (fields c_...) and what the same tree       *)
(*            renders with the caches emptied first (fields f_...), for one (widget, size, focus) = key;   *)
(*            keep = 1: the environment keeps the returned canvas (it enters `held`)              *)
(*   rows   : rows(size, focus) with the cache available (c_rows) and computed afresh (f_rows)    *)
(*   query  : a size-dependent question (cursor coordinates, preferred column, ends visible) answered  *)
(*            by the live tree (c_val) and by the same tree with the caches emptied first (f_val)   *)
(*   drop   : the environment releases its i-th held canvas                                       *)
(*   check  : every held canvas read again (now)                                                  *)
(*   op     : a public mutator / key / mouse press / gc was applied (nothing to judge)            *)
(* Model state kept by TLC: per key the previous cached and fresh renderings (sentence 2 of the   *)
(* property), and the renderings of the held canvases as they were when handed out (sentence 4).  *)
EXTENDS CanvasCacheOps, Json, IOUtils

Traces == JsonDeserialize(IOEnv.TRACE_FILE)
VARIABLES tid, l, prev, held, ok, why
vars == <<tid, l, prev, held, ok, why>>

Init == /\ tid \in 1..Len(Traces) /\ l = 0 /\ ok = TRUE /\ why = "-"
        /\ prev = [k \in 1..Traces[tid].nkeys |-> NoRendering]
        /\ held = <<>>

Verdict(e) ==
  CASE e.t = "render" -> RenderVerdict(e, prev[e.key])
    [] e.t = "rows" -> RowsVerdict(e)
    [] e.t = "query" -> QueryVerdict(e)
    [] e.t = "check" -> HeldVerdict(held, e.now)
    [] e.t = "drop" -> IF e.i < 1 \/ e.i > Len(held) THEN "harness_drop_index" ELSE "-"
    [] e.t = "op" -> "-"
    [] OTHER -> "no_action"

Step == /\ ok /\ l < Len(Traces[tid].ev) /\ l' = l + 1 /\ tid' = tid
        /\ LET e == Traces[tid].ev[l + 1]
               v == Verdict(e)
           IN /\ why' = v /\ ok' = (v = "-")
              /\ prev' = IF e.t = "render" /\ e.c_exc = "" /\ e.f_exc = ""
                         THEN [prev EXCEPT ![e.key] = <<Cached(e), Fresh2(e)>>] ELSE prev
              /\ held' = IF e.t = "render" /\ e.keep = 1 THEN Append(held, Cached(e))
                         ELSE IF e.t = "drop" /\ v = "-" THEN RemoveAt(held, e.i)
                         ELSE held
Spec == Init /\ [][Step]_vars
Report == ok \/ PrintT(<<"REJECT", tid, l, why>>)
===============================================================================
