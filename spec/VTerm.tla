------------------------------- MODULE VTerm -------------------------------
(* C15 design-level model: the reference terminal of VTermOps/Terminal under every bounded  *)
(* sequence of the commands the property lists, on a tiny grid with scrolling regions.      *)
(*  - TLC checks (Spec): the grid is always H x W, cursor and scrolling region stay inside,  *)
(*    pending wrap only at the margin, the scrollback only grows and keeps its lines in      *)
(*    order, every console-dialect result is a well-formed terminal too, and the reference    *)
(*    is accepted by its own comparator (Matches / Why of VTermOps).                          *)
(*  - Refutations (expected to FAIL): an "erase to cursor" that leaves the cursor cell, and   *)
(*    a comparator that could not tell it from the reference.                                 *)
(*  - SimSpec is the GENERATOR of command sequences for the conformance run (tlc -simulate):  *)
(*    `last` carries the command.  With Clean = TRUE the generator stays away from the        *)
(*    situations in which the real emulator is already known to differ (findings/C15.json),   *)
(*    so that long sequences keep exercising everything else; the ghost record gh exists      *)
(*    only for these generator guards and is never part of a verdict.                         *)
EXTENDS VTermOps

CONSTANTS W, H, Depth, Clean
VARIABLES t, n, last, gh
vars == <<t, n, last, gh>>

NoPs == <<>>
Letter == 97 + (n % 26)

SgrSmall  == {<<0>>, <<31, 44>>, <<1>>, <<38, 5, 100>>, <<48, 2, 1, 2, 3>>, <<91>>}
SgrFlags  == {<<1>>, <<4>>, <<7>>, <<5>>, <<24>>, <<27>>, <<25>>}
SgrPal    == {<<31>>, <<42>>, <<1, 33, 44>>, <<38, 5, 100>>, <<48, 5, 200>>, <<38, 5, 3>>, <<48, 5, 9>>, <<36, 47>>,
              <<38, 5, 255, 48, 5, 16>>, <<4, 35>>, <<30>>, <<37, 40>>}
SgrReset  == {<<0>>, <<>>, <<39>>, <<49>>, <<39, 49>>, <<32, 0>>, <<0, 45>>}
SgrBright == {<<91>>, <<102>>, <<1, 94>>, <<97, 100>>}
SgrTrue   == {<<38, 2, 1, 2, 3>>, <<48, 2, 250, 128, 7>>, <<38, 2, 9, 8, 7, 48, 2, 1, 1, 1>>, <<38, 2, 0, 0, 255>>}
SgrZero   == {<<48, 5, 0>>, <<48, 2, 250, 128, 0>>, <<38, 2, 0, 0, 0>>}      \* last parameter is a colour component 0

Common(ns, sg, xs, ys) ==
       {Cmd("put", 0, 0, NoPs), Cmd("cr", 0, 0, NoPs), Cmd("lf", 0, 0, NoPs), Cmd("ri", 0, 0, NoPs), Cmd("bs", 0, 0, NoPs)}
  \cup {Cmd("cup", x, y, NoPs) : x \in xs, y \in ys}
  \cup {Cmd(k, a, 0, NoPs) : k \in {"cuu", "cud", "cuf", "cub", "ich", "dch", "il", "dl"}, a \in ns}
  \cup {Cmd(k, a, 0, NoPs) : k \in {"el", "ed"}, a \in 0..2}
  \cup {Cmd("stbm", a, b, NoPs) : a \in 0..(H - 1), b \in {0} \cup (2..(H + 1))}
  \cup {Cmd("sgr", 0, 0, ps) : ps \in sg}

McCmds  == Common(1..2, SgrSmall, 0..(W - 1), 0..(H - 1))

Concrete(c) == IF c.t = "put" THEN [c EXCEPT !.a = Letter] ELSE c

HasTrue(ps) == \E i \in 1..Len(ps) : ps[i] \in {38, 48} /\ i + 1 <= Len(ps) /\ ps[i + 1] = 2
IsTrueOrDefault(col) == col = -1 \/ col >= 16777216
\* generator guard: keep away from the situations of the known findings
CleanOK(c) ==
  /\ (c.t = "put" /\ t.cx = t.w - 1) => gh.rot = t.pend
  /\ (c.t = "put" /\ t.pend) => t.cy <= t.bot
  /\ c.t = "ed" => ~(c.a = 1 /\ t.cx > 0)
  /\ c.t \in {"il", "dl"} => t.cy <= t.bot
  /\ c.t = "sgr" =>
       /\ c.ps \notin SgrBright \cup SgrZero
       /\ (c.ps \in SgrTrue => IsTrueOrDefault(t.pen.fg) /\ IsTrueOrDefault(t.pen.bg))
       /\ (gh.tm => c.ps \in SgrTrue \cup SgrFlags \cup {<<0>>, <<>>, <<39>>, <<49>>, <<39, 49>>})

Do(c0) ==
  LET c == Concrete(c0)  t2 == Ref(t, c) IN
  /\ t' = t2
  /\ n' = n + 1
  /\ last' = c
  /\ gh' = [rot |-> IF c.t = "put" THEN t2.pend ELSE gh.rot,
            tm  |-> IF c.t # "sgr" THEN gh.tm
                    ELSE IF c.ps = <<>> \/ c.ps[Len(c.ps)] = 0 THEN FALSE ELSE (gh.tm \/ HasTrue(c.ps))]

Init == t = NewTerm(W, H) /\ n = 0 /\ last = Cmd("init", 0, 0, NoPs) /\ gh = [rot |-> FALSE, tm |-> FALSE]
Next == n < Depth /\ \E c \in McCmds : Do(c)
\* weighted random choice of one command (one successor per step: fast, and printable text dominates as in real output)
AllSgr == SgrFlags \cup SgrPal \cup SgrReset \cup SgrBright \cup SgrTrue \cup SgrZero
\* (every RandomElement argument mentions the state variable n: TLC would otherwise evaluate the constant expression once)
Z == 0 * n
Counts == Z..(W + 1)
SimChoice ==
  LET r == RandomElement((1 + Z)..100) IN
  IF r <= 28 THEN Cmd("put", 0, 0, NoPs)
  ELSE IF r <= 32 THEN Cmd("cr", 0, 0, NoPs)
  ELSE IF r <= 39 THEN Cmd("lf", 0, 0, NoPs)
  ELSE IF r <= 44 THEN Cmd("ri", 0, 0, NoPs)
  ELSE IF r <= 47 THEN Cmd("bs", 0, 0, NoPs)
  ELSE IF r <= 54 THEN Cmd("cup", RandomElement(Z..W), RandomElement(Z..H), NoPs)
  ELSE IF r <= 62 THEN Cmd(RandomElement({<<"cuu", "cud", "cuf", "cub">>[i] : i \in (1 + Z)..4}), RandomElement(Counts), 0, NoPs)
  ELSE IF r <= 67 THEN Cmd("el", RandomElement(Z..2), 0, NoPs)
  ELSE IF r <= 71 THEN Cmd("ed", RandomElement(Z..2), 0, NoPs)
  ELSE IF r <= 79 THEN Cmd(RandomElement({<<"ich", "dch">>[i] : i \in (1 + Z)..2}), RandomElement(Counts), 0, NoPs)
  ELSE IF r <= 87 THEN Cmd(RandomElement({<<"il", "dl">>[i] : i \in (1 + Z)..2}), RandomElement(Counts), 0, NoPs)
  ELSE IF r <= 92 THEN Cmd("stbm", RandomElement(Z..H), RandomElement(Z..(H + 1)), NoPs)
  ELSE Cmd("sgr", 0, 0, RandomElement({ps \in AllSgr : Z = 0}))
\* in the clean profile a command that would enter a known-finding situation is replaced by text or a carriage return
Steer(c) == IF ~Clean \/ CleanOK(c) THEN c
            ELSE IF CleanOK(Cmd("put", 0, 0, NoPs)) THEN Cmd("put", 0, 0, NoPs) ELSE Cmd("cr", 0, 0, NoPs)
SimNext == n < Depth /\ \E c \in {SimChoice} : Do(Steer(c))
Spec == Init /\ [][Next]_vars
SimSpec == Init /\ [][SimNext]_vars

(* ---- checked ---- *)
Shape == t.w = W /\ t.h = H /\ WellFormedShape(t) /\ WellFormed(t)
SelfAccepted == Matches(t, ObsOf(t), TRUE) /\ Matches(t, ObsOf(t), FALSE) /\ Why(t, ObsOf(t), TRUE) = "-"
DialectWellFormed ==
  \A c \in {d \in McCmds : d.t \in {"cuu", "cud", "il", "dl", "stbm"}} : LET cs == Cands(t, c, FALSE) IN
     \A i \in 1..Len(cs) : WellFormed(cs[i]) /\ WellFormedShape(cs[i]) /\ cs[i].w = W /\ cs[i].h = H
ViewLaw == \A k \in 0..(Len(t.sb) + 1) :
             LET v == ViewOf(t.sb, t.grid, k) IN Len(v) = H /\ (k = 0 => v = t.grid)
                                                 /\ (k >= Len(t.sb) /\ Len(t.sb) > 0 => v[1] = t.sb[1])
ScrollbackGrowsInOrder == [][Len(t'.sb) >= Len(t.sb) /\ SubSeq(t'.sb, 1, Len(t.sb)) = t.sb]_vars

(* ---- refuted (TLC must find a counterexample) ---- *)
ExclusiveEraseIsAccepted == Matches(ED1Exclusive(t), ObsOf(ED(t, 1)), FALSE)
=============================================================================
