------------------------------- MODULE VTerm -------------------------------
(* C15 design-level model: the reference terminal of VTermOps/Terminal under every bounded  *)
(* sequence of the commands the property lists (and of what a VT100 documents next to them: *)
(* text runs, tab stops, origin / insert / autowrap / new-line mode, save / restore cursor, *)
(* charsets, queries), on a tiny grid with scrolling regions.                               *)
(*  - TLC checks (Spec): the grid is always H x W, cursor and scrolling region stay inside,  *)
(*    pending wrap only at the margin, in origin mode the cursor never leaves the region,     *)
(*    tab stops stay inside the screen, the scrollback only grows, keeps its lines in order   *)
(*    and is fed only by a region that starts at the top, scrolling inside a region never     *)
(*    touches a line outside it, autowrap outside the region moves down without scrolling,    *)
(*    every query has a well-formed answer, every console-dialect result is a well-formed     *)
(*    terminal too, and the reference is accepted by its own comparator (Matches / Why).      *)
(*  - Refutations (expected to FAIL): an "erase to cursor" that leaves the cursor cell, an    *)
(*    autowrap that is bounded by the bottom margin instead of the bottom of the screen, and  *)
(*    a comparator that could not tell them from the reference.                               *)
(*  - SimSpec is the GENERATOR of command sequences for the conformance run (tlc -simulate):  *)
(*    `last` carries the command.  With Clean = TRUE the generator stays away from the        *)
(*    situations in which the real emulator is known to differ (open findings of              *)
(*    findings/C15.json), so that long sequences keep exercising everything else; the ghost   *)
(*    record gh exists only for these generator guards and is never part of a verdict.        *)
(*    ExtPct = share (percent) of commands outside the literally listed subset.               *)
(*    Lock = TRUE: the terminal is configured for UTF-8 (urwid's encoding "utf8"); FALSE: the  *)
(*    program selects the main character set (ESC % G / ESC % @, "mcs") and the runs of bytes  *)
(*    at or above 0x80 ("raw") are generated well-formed for the character set then in force:  *)
(*    UTF-8 sequences after ESC % G, single bytes 0xA0..0xFF after ESC % @.                    *)
(*  - RegSpec is the EXHAUSTIVE generator of the scrolling-region family: the screen filled   *)
(*    with text, one mode prelude, every region, the cursor addressed to every row (above /   *)
(*    inside / on the margins / below the region) at the left and the right edge, then every  *)
(*    command of RegActs (text runs that cross the right edge, LF / IND / NEL / RI, IL / DL,  *)
(*    cursor movement past the margins, ED, CPR), then RegDepth - 1 further text runs.  Every  *)
(*    reachable state carries its command history (hist); the driver takes the histories of   *)
(*    the final states (tlc -dump) and replays them into the real emulator.                   *)
EXTENDS VTermOps

CONSTANTS W, H, Depth, Clean, ExtPct, RegDepth, Lock
VARIABLES t, n, last, gh, hist
vars == <<t, n, last, gh, hist>>

NoPs == <<>>
Letter == 97 + (n % 26)

SgrSmall  == {<<0>>, <<31, 44>>, <<1>>, <<38, 5, 100>>, <<48, 2, 1, 2, 3>>, <<91>>}
SgrFlags  == {<<1>>, <<4>>, <<7>>, <<5>>, <<24>>, <<27>>, <<25>>}
SgrPal    == {<<31>>, <<42>>, <<1, 33, 44>>, <<38, 5, 100>>, <<48, 5, 200>>, <<38, 5, 3>>, <<48, 5, 9>>, <<36, 47>>,
              <<38, 5, 255, 48, 5, 16>>, <<4, 35>>, <<30>>, <<37, 40>>}
SgrReset  == {<<0>>, <<>>, <<39>>, <<49>>, <<39, 49>>, <<32, 0>>, <<0, 45>>}
SgrBright == {<<91>>, <<102>>, <<1, 94>>, <<97, 100>>}
SgrTrue   == {<<38, 2, 1, 2, 3>>, <<48, 2, 250, 128, 7>>, <<38, 2, 9, 8, 7, 48, 2, 1, 1, 1>>, <<38, 2, 0, 0, 255>>}
SgrZero   == {<<48, 5, 0>>, <<48, 2, 250, 128, 0>>, <<38, 2, 0, 0, 0>>}      \* last parameter is a colour component 0

C0(k) == Cmd(k, 0, 0, NoPs)
C1(k, a) == Cmd(k, a, 0, NoPs)

Common(ns, sg, xs, ys) ==
       {C0("put"), C0("cr"), C0("lf"), C0("ri"), C0("bs")}
  \cup {Cmd("cup", x, y, NoPs) : x \in xs, y \in ys}
  \cup {C1(k, a) : k \in {"cuu", "cud", "cuf", "cub", "ich", "dch", "il", "dl"}, a \in ns}
  \cup {C1(k, a) : k \in {"el", "ed"}, a \in 0..2}
  \cup {Cmd("stbm", a, b, NoPs) : a \in 0..(H - 1), b \in {0} \cup (2..(H + 1))}
  \cup {Cmd("sgr", 0, 0, ps) : ps \in sg}

\* outside the literally listed subset
ExtCmds ==
       {C1("txt", 2), C0("ind"), C0("nel"), C0("ht"), C0("hts"), C0("decsc"), C0("decrc"), C0("scosc"), C0("scorc"),
        C0("so"), C0("si"), C0("cpr")}
  \cup {C1(k, a) : k \in {"cha", "vpa"}, a \in {1, 2, W, H}}
  \cup {C1(k, a) : k \in {"cnl", "cpl", "ech"}, a \in 1..2}
  \cup {C1("tbc", a) : a \in {0, 3}}
  \cup {C1(k, a) : k \in {"decom", "irm", "decawm", "lnm"}, a \in 0..1}
  \cup {Cmd("scs", g, b, NoPs) : g \in 0..1, b \in {48, 66}}
  \cup {C1("mcs", a) : a \in 0..1} \cup {C1("raw", 2)}

McCmds  == Common(1..2, SgrSmall, 0..(W - 1), 0..(H - 1)) \cup (IF ExtPct > 0 THEN ExtCmds ELSE {})

\* "put" prints the next letter, "txt" with a = k a run of the next k letters
\* "raw" with a = k: k characters U+00A0..U+00FF as they are on the wire in the main character set now in force (their UTF-8
\* sequences C2 A0 .. C3 BF, or the single bytes A0 .. FF)
RawCps(k) == [i \in 1..k |-> 160 + ((7 * n + 37 * i) % 96)]
Concrete(c) == IF c.t = "put" THEN [c EXCEPT !.a = Letter]
               ELSE IF c.t = "txt" /\ c.ps = NoPs THEN [c EXCEPT !.ps = [i \in 1..c.a |-> 97 + ((n + i - 1) % 26)], !.a = 0]
               ELSE IF c.t = "raw" /\ c.ps = NoPs THEN [c EXCEPT !.ps = IF Utf8On(t) THEN Utf8EncodeAll(RawCps(c.a)) ELSE RawCps(c.a)]
               ELSE c

HasTrue(ps) == \E i \in 1..Len(ps) : ps[i] \in {38, 48} /\ i + 1 <= Len(ps) /\ ps[i + 1] = 2
IsTrueOrDefault(col) == col = -1 \/ col >= 16777216
CursorCell == t.grid[t.cy + 1][t.cx + 1]
\* generator guard: keep away from the situations of the open findings
CleanOK(c) ==
  /\ c.t = "sgr" =>
       /\ (c.ps \in SgrTrue => IsTrueOrDefault(t.pen.fg) /\ IsTrueOrDefault(t.pen.bg))
       /\ (gh.tm => c.ps \in SgrTrue \cup SgrFlags \cup {<<0>>, <<>>, <<39>>, <<49>>, <<39, 49>>})
  /\ c.t = "ht" => t.cx = t.w - 1 \/ (CursorCell.c = 32 /\ CursorCell.bg = t.pen.bg)       \* HT blanks the cell it starts from
  /\ (c.t = "ed" /\ OM(t)) => c.a = 2 \/ (t.top = 0 /\ t.bot = t.h - 1)                    \* ED in origin mode stops at the margins
  /\ c.t = "decom" => ~(t.pend /\ t.w = 1)                                                  \* DECOM keeps the last-column flag
  /\ c.t = "scs" => ~gh.sv                                                                  \* ESC 7 shares the charset table with its copy
\* generator guard of both profiles: G1 is invoked only after it has been designated (the console's default G1 is the
\* graphics set, a VT100's is ASCII)
AlwaysOK(c) == c.t = "so" => gh.g1d

Do(c0) ==
  LET c == Concrete(c0)  t2 == Ref(t, c) IN
  /\ t' = t2
  /\ n' = n + 1
  /\ last' = c
  /\ hist' = IF hist = <<>> THEN hist ELSE Append(hist, c)
  /\ gh' = [tm  |-> IF c.t # "sgr" THEN gh.tm
                    ELSE IF c.ps = <<>> \/ c.ps[Len(c.ps)] = 0 THEN FALSE ELSE (gh.tm \/ HasTrue(c.ps)),
            g1d |-> gh.g1d \/ (c.t = "scs" /\ c.a = 1 /\ ~t.mcs),     \* (the console ignores designations while UTF-8 is selected)
            sv  |-> gh.sv \/ c.t = "decsc"]

Gh0 == [tm |-> FALSE, g1d |-> FALSE, sv |-> FALSE]
Init == t = NewVTL(W, H, Lock) /\ n = 0 /\ last = Cmd("init", 0, 0, NoPs) /\ gh = Gh0 /\ hist = <<>>
Next == n < Depth /\ \E c \in McCmds : AlwaysOK(c) /\ Do(c)
\* weighted random choice of one command (one successor per step: fast, and printable text dominates as in real output)
AllSgr == SgrFlags \cup SgrPal \cup SgrReset \cup SgrBright \cup SgrTrue \cup SgrZero
\* (every RandomElement argument mentions the state variable n: TLC would otherwise evaluate the constant expression once)
Z == 0 * n
Counts == Z..(W + 1)
Pick(seq) == seq[RandomElement((1 + Z)..Len(seq))]
CoreChoice ==
  LET r == RandomElement((1 + Z)..100) IN
  IF r <= 28 THEN C0("put")
  ELSE IF r <= 32 THEN C0("cr")
  ELSE IF r <= 39 THEN C0("lf")
  ELSE IF r <= 44 THEN C0("ri")
  ELSE IF r <= 47 THEN C0("bs")
  ELSE IF r <= 54 THEN Cmd("cup", RandomElement(Z..W), RandomElement(Z..H), NoPs)
  ELSE IF r <= 62 THEN C1(Pick(<<"cuu", "cud", "cuf", "cub">>), RandomElement(Counts))
  ELSE IF r <= 67 THEN C1("el", RandomElement(Z..2))
  ELSE IF r <= 71 THEN C1("ed", RandomElement(Z..2))
  ELSE IF r <= 79 THEN C1(Pick(<<"ich", "dch">>), RandomElement(Counts))
  ELSE IF r <= 87 THEN C1(Pick(<<"il", "dl">>), RandomElement(Counts))
  ELSE IF r <= 92 THEN Cmd("stbm", RandomElement(Z..H), RandomElement(Z..(H + 1)), NoPs)
  ELSE Cmd("sgr", 0, 0, RandomElement({ps \in AllSgr : Z = 0}))
ExtChoice ==
  LET r == RandomElement((1 + Z)..(IF Lock THEN 112 ELSE 130)) IN
  IF r <= 14 THEN C1("txt", RandomElement((2 + Z)..(W + 2)))
  ELSE IF r <= 17 THEN C0("ind")
  ELSE IF r <= 21 THEN C0("nel")
  ELSE IF r <= 26 THEN C1("cha", RandomElement(Z..(W + 1)))
  ELSE IF r <= 31 THEN C1("vpa", RandomElement(Z..(H + 1)))
  ELSE IF r <= 37 THEN C1(Pick(<<"cnl", "cpl">>), RandomElement(Z..H))
  ELSE IF r <= 42 THEN C1("ech", RandomElement(Counts))
  ELSE IF r <= 48 THEN C0("ht")
  ELSE IF r <= 52 THEN C0("hts")
  ELSE IF r <= 55 THEN C1("tbc", Pick(<<0, 0, 3>>))
  ELSE IF r <= 61 THEN C1("decom", RandomElement(Z..1))
  ELSE IF r <= 66 THEN C1("irm", RandomElement(Z..1))
  ELSE IF r <= 71 THEN C1("decawm", RandomElement(Z..1))
  ELSE IF r <= 75 THEN C1("lnm", RandomElement(Z..1))
  ELSE IF r <= 79 THEN C0("decsc")
  ELSE IF r <= 84 THEN C0("decrc")
  ELSE IF r <= 86 THEN C0("scosc")
  ELSE IF r <= 89 THEN C0("scorc")
  ELSE IF r <= 92 THEN C0("so")
  ELSE IF r <= 95 THEN C0("si")
  ELSE IF r <= 100 THEN Cmd("scs", RandomElement(Z..1), Pick(<<48, 48, 66>>), NoPs)
  ELSE IF r <= 104 THEN C0("cpr")
  ELSE IF r <= 106 THEN Pick(<<C0("dsr"), C0("da")>>)
  ELSE IF r <= 109 THEN C1("raw", RandomElement((1 + Z)..(W + 1)))
  ELSE IF r <= 112 THEN C1("mcs", RandomElement(Z..1))
  ELSE IF r <= 122 THEN C1("raw", RandomElement((1 + Z)..(W + 1)))
  ELSE C1("mcs", RandomElement(Z..1))
SimChoice == IF RandomElement((1 + Z)..100) <= ExtPct THEN ExtChoice ELSE CoreChoice
\* a command that the guards exclude is replaced by text
Steer(c) == IF (~Clean \/ CleanOK(c)) /\ AlwaysOK(c) THEN c ELSE C0("put")
SimNext == n < Depth /\ \E c \in {SimChoice} : Do(Steer(c))
Spec == Init /\ [][Next]_vars
SimSpec == Init /\ [][SimNext]_vars

(* ---- the scrolling-region family (exhaustive; every state carries its history) ---- *)
RegFill == Cmd("txt", 0, 0, [i \in 1..(W * H) |-> 65 + ((i - 1) % 26)])       \* every line gets its own capital letters
RegPre  == {Cmd("sgr", 0, 0, <<44>>), C1("decom", 1), C1("irm", 1), C1("decawm", 0), C1("lnm", 1)}
RegStbm == {Cmd("stbm", p[1], p[2], NoPs) : p \in {q \in (1..H) \X (1..H) : q[1] < q[2]}}
\* every row (in origin mode: every row of the region, rows are addressed from the top margin), left and right edge
RegCup  == {Cmd("cup", x, y, NoPs) : x \in {0, W - 1}, y \in 0..(IF OM(t) THEN t.bot - t.top ELSE H - 1)}
RegTxt  == {C1("txt", k) : k \in {1, 2, W, W + 1}}
RegMove == {C0("lf"), C0("ind"), C0("nel"), C0("ri"), C0("cpr"), C1("cnl", 1), C1("cpl", 1), C1("vpa", 1), C1("vpa", H),
            C1("ed", 0), C1("ed", 1), Cmd("cup", 0, H + 1, NoPs)}
       \cup {C1(k, a) : k \in {"il", "dl"}, a \in {1, 2, H}}
       \cup {C1(k, a) : k \in {"cuu", "cud"}, a \in {1, H}}
\* text and the position query at both edges; what else does not print is tried from the right edge only (where a
\* carriage return shows)
RegActs(pre) == IF pre.t \in {"irm", "decawm"} THEN RegTxt
                ELSE IF pre.t = "lnm" THEN (IF t.cx = 0 THEN {} ELSE {C0("lf"), C0("ind"), C0("nel")})
                ELSE IF t.cx = 0 THEN RegTxt \cup {C0("cpr")} ELSE RegTxt \cup RegMove
RegLen == 4 + RegDepth
RegInit == t = NewVTL(W, H, Lock) /\ n = 0 /\ last = Cmd("init", 0, 0, NoPs) /\ gh = Gh0 /\ hist = <<Cmd("init", 0, 0, NoPs)>>
RegNext == \/ n = 0 /\ Do(RegFill)
           \/ n = 1 /\ \E c \in RegPre : Do(c)
           \/ n = 2 /\ \E c \in RegStbm : Do(c)
           \/ n = 3 /\ \E c \in RegCup : Do(c)
           \/ n = 4 /\ \E c \in RegActs(hist[3]) : Do(c)
           \/ n > 4 /\ n < RegLen /\ Do(C1("txt", 2))
RegSpec == RegInit /\ [][RegNext]_vars

(* ---- checked ---- *)
Shape == t.w = W /\ t.h = H /\ WellFormedShape(t) /\ WellFormed(t)
ExtShape == /\ t.tabs \subseteq 0..(W - 1)
            /\ (OM(t) => InRegion(t))
            /\ (t.sc.pos # <<>> => t.sc.pos[1] \in 0..(W - 1) /\ t.sc.pos[2] \in 0..(H - 1))
            /\ t.g0 \in {"B", "0"} /\ t.g1 \in {"B", "0"} /\ t.shift \in 0..1
            /\ t.mcs \in BOOLEAN /\ t.u8lock = Lock
            /\ (last.t = "raw" => WellFormedFor(Utf8On(t), last.ps) /\ Len(DecodeBytes(Utf8On(t), last.ps)) = last.a)   \* generator sanity
SelfAccepted == Matches(t, ObsOf(t), TRUE) /\ Matches(t, ObsOf(t), FALSE) /\ Why(t, ObsOf(t), TRUE) = "-"
DialectWellFormed ==
  \A c \in {d \in McCmds : d.t \in {"cuu", "cud", "cnl", "cpl", "il", "dl", "stbm", "ht", "decrc"}} : LET cs == Cands(t, c, FALSE) IN
     \A i \in 1..Len(cs) : WellFormed(cs[i]) /\ WellFormedShape(cs[i]) /\ cs[i].w = W /\ cs[i].h = H
ViewLaw == \A k \in 0..(Len(t.sb) + 1) :
             LET v == ViewOf(t.sb, t.grid, k) IN Len(v) = H /\ (k = 0 => v = t.grid)
                                                 /\ (k >= Len(t.sb) /\ Len(t.sb) > 0 => v[1] = t.sb[1])
\* every query has exactly the answers of a cursor position inside the screen (inside the region in origin mode)
RepliesWellFormed ==
  /\ \A r \in Replies(t, C0("cpr"), FALSE) : \E x \in 0..(W - 1), y \in 0..(H - 1) : r = CPR(x, y)
  /\ Replies(t, C0("cpr"), TRUE) \subseteq Replies(t, C0("cpr"), FALSE) /\ Cardinality(Replies(t, C0("cpr"), TRUE)) = 1
  /\ Replies(t, C0("dsr"), TRUE) = {DSROK} /\ Replies(t, C0("da"), TRUE) = {DA}
ScrollbackGrowsInOrder == [][Len(t'.sb) >= Len(t.sb) /\ SubSeq(t'.sb, 1, Len(t.sb)) = t.sb]_vars
\* only a region that starts at the top of the screen feeds the scrollback
ScrollbackFedFromTheTop == [][Len(t'.sb) > Len(t.sb) => t.top = 0]_vars
\* line feeds, reverse index, insert and delete line never touch a line outside the scrolling region
Outside(y) == y - 1 < t.top \/ y - 1 > t.bot
RegionScrollIsLocal ==
  [][last'.t \in {"lf", "ind", "nel", "ri", "il", "dl"} => \A y \in 1..H : Outside(y) => t'.grid[y] = t.grid[y]]_vars
\* autowrap with the cursor outside the region: down one line (never past the last line), nothing scrolls
WrapOutsideRegion ==
  [][(last'.t = "put" /\ t.wrap /\ t.pend /\ Outside(t.cy + 1))
       => /\ t'.cy = Min2(t.cy + 1, H - 1) /\ t'.sb = t.sb
          /\ \A y \in 1..H : y - 1 # t'.cy => t'.grid[y] = t.grid[y]]_vars
\* a run of k glyphs printed with the cursor below the region: the glyphs fill the lines down to the last one, where the
\* run goes on overwriting; nothing scrolls and no line of or above the region changes
TextBelowRegion ==
  [][(last'.t \in {"put", "txt"} /\ t.wrap /\ t.cy > t.bot)
       => LET k == IF last'.t = "put" THEN 1 ELSE Len(last'.ps)
              v0 == IF t.pend THEN W ELSE t.cx
          IN k >= 1 => /\ t'.cy = Min2(t.cy + ((v0 + k - 1) \div W), H - 1) /\ t'.sb = t.sb
                       /\ \A y \in 1..(t.bot + 1) : t'.grid[y] = t.grid[y]]_vars
\* a query changes nothing
QueriesChangeNothing == [][last'.t \in Query => t' = t]_vars
\* selecting the main character set changes nothing that is shown, and what follows is decoded by the set selected last:
\* a run of k characters (as UTF-8 sequences or as single bytes) prints exactly what the text run of their code points prints
CharsetSwitchShowsNothing == [][last'.t = "mcs" => t' = [t EXCEPT !.mcs = (last'.a = 1)]]_vars
RawIsTextOfItsCharacters == [][last'.t = "raw" => t' = Ref(t, Cmd("txt", 0, 0, RawCps(last'.a)))]_vars
\* UTF-8: encoding and decoding are inverse on every code point class (1, 2, 3, 4 bytes), a run decodes character by character,
\* 8-bit characters are their bytes, and a byte that belongs to no sequence is told apart from every character
Utf8Sample == {32, 126, 128, 160, 233, 255, 256, 2047, 2048, 9472, 10272, 65535, 65536, 128512, 1114111}
Utf8LawsHold ==
  /\ \A cp \in Utf8Sample : Utf8DecodeFrom(Utf8Encode(cp), 1) = <<cp>> /\ WellFormedFor(TRUE, Utf8Encode(cp))
  /\ \A a \in Utf8Sample, b \in Utf8Sample : Utf8DecodeFrom(Utf8Encode(a) \o Utf8Encode(b), 1) = <<a, b>>
  /\ Utf8Encode(233) = <<195, 169>> /\ Utf8Encode(8364) = <<226, 130, 172>> /\ Utf8Encode(128512) = <<240, 159, 152, 128>>
  /\ \A cp \in 160..255 : DecodeBytes(FALSE, <<cp>>) = <<cp>> /\ Len(DecodeBytes(FALSE, Utf8Encode(cp))) = 2
  /\ \A bs \in {<<195>>, <<169>>, <<195, 40>>, <<226, 130>>, <<255>>, <<192, 128>>} : Replacement \in {Utf8DecodeFrom(bs, 1)[i] : i \in 1..Len(Utf8DecodeFrom(bs, 1))}
  /\ ~WellFormedFor(TRUE, <<195>>) /\ ~WellFormedFor(FALSE, <<155>>) /\ WellFormedFor(FALSE, <<195, 169>>)
ASSUME Utf8Laws == Utf8LawsHold
\* malformed UTF-8, lenient reading: well-formed input reads as the reference reads it; a sequence that is cut short shows nothing,
\* whatever its length; a continuation byte that continues nothing is the 8-bit character it is; and a character is never assembled
\* from the two halves of a sequence that are decoded apart (the commands in between are decoded on their own)
RECURSIVE Prefixes(_)
Prefixes(bs) == IF Len(bs) <= 1 THEN {} ELSE {SubSeq(bs, 1, Len(bs) - 1)} \cup Prefixes(SubSeq(bs, 1, Len(bs) - 1))
LenientLawsHold ==
  /\ \A a \in Utf8Sample, b \in Utf8Sample : LenientFrom(Utf8Encode(a) \o Utf8Encode(b), 1) = <<a, b>>
  /\ \A cp \in Utf8Sample : \A pre \in Prefixes(Utf8Encode(cp)) :
        /\ LenientFrom(pre, 1) = <<>>
        /\ LenientFrom(pre \o <<120>>, 1) = <<120>>                        \* cut short inside one run
        /\ LET rest == SubSeq(Utf8Encode(cp), Len(pre) + 1, Len(Utf8Encode(cp)))
           IN cp < 192 \/ cp \notin {(LenientFrom(pre, 1) \o <<120, 121>> \o LenientFrom(rest, 1))[i] : i \in 1..(2 + Len(LenientFrom(rest, 1)))}
  /\ \A b \in 128..191 : LenientFrom(<<b>>, 1) = <<b>>
  /\ LenientFrom(<<192, 128>>, 1) = <<>> /\ LenientFrom(<<226, 130, 195, 169>>, 1) = <<233>>
  /\ LenientBytes(FALSE, <<226, 130>>) = <<226, 130>>
ASSUME LenientLaws == LenientLawsHold
\* lines across a resize: kept in order (cut or padded to the new width, blank rows below); a block of restored lines that is
\* put in upside down, a dropped line or a changed cell is told apart
ResizeLawsHold ==
  LET c(k) == <<k, -1, -1, 0>>   bl == <<32, -1, -1, 0>>
      A == <<c(65), c(97)>>  B == <<c(66), c(98)>>  C == <<c(67), c(99)>>  D == <<c(68), c(100)>>
  IN /\ ResizeKeepsLines(<<A, B>>, <<C, D>>, <<>>, <<A, B, C, D>>)                    \* two rows taller
     /\ ~ResizeKeepsLines(<<A, B>>, <<C, D>>, <<>>, <<B, A, C, D>>)                   \* ... restored upside down
     /\ ResizeKeepsLines(<<A>>, <<B, C>>, <<>>, <<A, B, C, <<bl, bl>>>>)                \* taller than there are lines
     /\ ~ResizeKeepsLines(<<A>>, <<B, C>>, <<>>, <<<<bl, bl>>, A, B, C>>)
     /\ ResizeKeepsLines(<<A>>, <<B, C>>, <<A, B>>, <<C>>)                              \* shorter
     /\ ~ResizeKeepsLines(<<A>>, <<B, C>>, <<A>>, <<C>>)                                \* a line lost
     /\ ResizeKeepsLines(<<A>>, <<B, C>>, <<A>>, <<<<c(66)>>, <<c(67)>>>>)              \* narrower
     /\ ResizeKeepsLines(<<A>>, <<B, C>>, <<>>, <<A \o <<bl>>, B \o <<bl>>, C \o <<bl>>>>)   \* wider and taller
     /\ ~ResizeKeepsLines(<<A>>, <<B, C>>, <<>>, <<A \o <<c(120)>>, B \o <<bl>>, C \o <<bl>>>>)
ASSUME ResizeLaws == ResizeLawsHold
\* colours by meaning: bold folds the eight basic colours into the bright ones, never one palette index into another
ColourLawsHold ==
  /\ FgEq(1, TRUE, 9, TRUE) /\ FgEq(1, TRUE, 1001, TRUE) /\ FgEq(1012, TRUE, 1012, TRUE) /\ FgEq(1012, FALSE, 12, FALSE)
  /\ ~FgEq(1012, TRUE, 1004, TRUE) /\ ~FgEq(1009, TRUE, 1001, TRUE) /\ ~FgEq(16777216 + 12, TRUE, 16777216 + 4, TRUE)
ASSUME ColourLaws == ColourLawsHold

(* ---- refuted (TLC must find a counterexample) ---- *)
ExclusiveEraseIsAccepted == Matches(ED1Exclusive(t), ObsOf(ED(t, 1)), FALSE)
\* autowrap that takes the bottom margin for the bottom of the screen
MarginBoundWrap(s, c) == IF s.pend /\ s.wrap /\ s.cy > s.bot THEN PutX([s EXCEPT !.cx = 0, !.pend = FALSE], c) ELSE PutX(s, c)
MarginBoundWrapIsAccepted == Matches(MarginBoundWrap(t, 120), ObsOf(PutX(t, 120)), FALSE)
\* a decoder that is looked up once per feed: ESC % G / ESC % @ followed in the same feed by two characters
FrozenDecoderIsAccepted ==
  \A on \in BOOLEAN : LET bs == IF Utf8On(MCS(t, on)) THEN Utf8EncodeAll(<<233, 162>>) ELSE <<233, 162>>
                      IN Matches(FrozenDecoderFeed(t, on, bs), ObsOf(ProperFeed(t, on, bs)), FALSE)
=============================================================================
