---------------------------- MODULE MainLoopTrace ----------------------------
(* C12 trace validation: sessions of the real MainLoop on a real pty with a real            *)
(* raw_display.Screen, each of the six event loops under the virtual clock, and exceptions   *)
(* injected at a chosen callback invocation.                                                 *)
EXTENDS MainLoopOps, Json, IOUtils

Traces == JsonDeserialize(IOEnv.TRACE_FILE)
VARIABLES tid, l, m, ok, why
vars == <<tid, l, m, ok, why>>

Init == tid \in 1..Len(Traces) /\ l = 0 /\ m = InitM(Traces[tid].w, Traces[tid].h) /\ ok = TRUE /\ why = "-"
Step == /\ ok /\ l < Len(Traces[tid].ev) /\ l' = l + 1 /\ tid' = tid
        /\ LET r == JudgeM(m, Traces[tid].ev[l + 1]) IN m' = r.m /\ why' = r.why /\ ok' = (r.why = "-")
Spec == Init /\ [][Step]_vars
Report == ok \/ PrintT(<<"REJECT", tid, l, why>>)
==============================================================================
