------------------------ MODULE MonitoredListTrace ------------------------
(* C16 trace validation: executions recorded from the real MonitoredList /               *)
(* MonitoredFocusList / list walkers / container .contents are checked, event by event,  *)
(* against the contract operators of MonitoredListOps.                                    *)
EXTENDS MonitoredListOps, Json, IOUtils

Traces == JsonDeserialize(IOEnv.TRACE_FILE)

VARIABLES tid, l, items, focus, ok, why
vars == <<tid, l, items, focus, ok, why>>

Init == /\ tid \in 1..Len(Traces)
        /\ l = 0
        /\ items = Traces[tid].init.items
        /\ focus = Traces[tid].init.focus
        /\ ok = TRUE
        /\ why = "-"

\* first failing clause, or "-" when the event satisfies the contract
Judge(tr, e) ==
  LET hasFocus == tr.kind \in {"focus", "focus_nocb"}     \* focus_nocb: no focus-changed observer installed (fcb stays 0)
      hasFcb == tr.kind = "focus"
      \* SimpleListWalker: a plain monitored list plus a position that is re-clamped after every call; what a ListBox sees
      \* of it (get_focus) is None exactly when the list is empty, else in range: the same position, else the last item
      isClamp == tr.kind = "clamp"
      op == e.op
      isSet == op.n = "setfocus"
      n == Len(items)
      r == IF isSet
           THEN [items |-> items,
                 \* the list's own focus setter ignores the index when the list is empty; a container's
                 \* focus_position raises IndexError instead (tr.emptyfocus, see C08)
                 err |-> IF (n > 0 /\ (op.a < 0 \/ op.a >= n)) \/ (n = 0 /\ tr.emptyfocus = "IndexError") THEN "IndexError" ELSE "",
                 pos |-> Ident(n)]
           ELSE ListApply(items, op)
      nl == Len(r.items)
      want == IF isSet THEN (IF n = 0 \/ r.err # "" THEN focus ELSE op.a) ELSE FocusRule(focus, r.pos, nl)
  IN  IF e.exc # r.err THEN "same_errors_as_list"
      ELSE IF r.err # "" /\ (e.items # items \/ (hasFocus /\ e.focus # focus)) THEN "unchanged_on_error"
      ELSE IF e.items # r.items THEN "contents_as_list"
      ELSE IF hasFocus /\ ((e.focus = NoFocus) # (e.items = <<>>)) THEN "focus_none_iff_empty"
      ELSE IF hasFocus /\ e.focus # NoFocus /\ (e.focus < 0 \/ e.focus >= Len(e.items)) THEN "focus_in_range"
      ELSE IF hasFocus /\ r.err = "" /\ focus # NoFocus /\ e.focus # want
              /\ ~(op.n = "sort" /\ e.focus # NoFocus /\ e.items[e.focus + 1] = items[focus + 1]) THEN "focus_follows_item"
      ELSE IF isClamp /\ r.err # "" /\ e.focus # focus THEN "unchanged_on_error"
      ELSE IF isClamp /\ ((e.focus = NoFocus) # (e.items = <<>>)) THEN "focus_none_iff_empty"
      ELSE IF isClamp /\ e.focus # NoFocus /\ (e.focus < 0 \/ e.focus >= Len(e.items)) THEN "focus_in_range"
      ELSE IF isClamp /\ r.err = "" /\ nl > 0 /\ e.focus # (IF isSet THEN op.a ELSE IF focus = NoFocus THEN 0 ELSE IF focus < nl THEN focus ELSE nl - 1)
           THEN "walker_keeps_position_else_last_item"
      ELSE IF r.err # "" /\ e.mod # 0 THEN "modified_never_on_failure"
      ELSE IF r.err = "" /\ r.items # items /\ e.mod # 1 THEN "modified_once_on_change"
      ELSE IF e.mod > 1 THEN "modified_at_most_once"
      ELSE IF hasFcb /\ focus # NoFocus /\ e.focus # NoFocus /\ ((e.fcb >= 1) # (e.focus # focus)) THEN "focus_cb_iff_changed"
      ELSE "-"

Step == /\ ok
        /\ l < Len(Traces[tid].ev)
        /\ l' = l + 1
        /\ tid' = tid
        /\ LET e == Traces[tid].ev[l + 1]
               j == Judge(Traces[tid], e)
           IN /\ why' = j
              /\ ok' = (j = "-")
              /\ items' = e.items
              /\ focus' = e.focus
Spec == Init /\ [][Step]_vars

Report == ok \/ PrintT(<<"REJECT", tid, l, why>>)
===========================================================================
