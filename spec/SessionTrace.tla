----------------------------- MODULE SessionTrace -----------------------------
(* End-to-end trace validation: one trace = one REAL session (real MainLoop, real              *)
(* raw_display.Screen on a pty, real widgets, one of the six event loops under virtual time).  *)
(* Events, in the order they happened:                                                          *)
(*   put / puts / cup / sgr / el / decset / ...  tokens of every byte the Screen wrote; they    *)
(*             run on the reference terminal (Terminal.tla via RawDisplayTrace!Apply)           *)
(*   input     bytes the harness typed (a chunk cut at an arbitrary point of the byte stream)   *)
(*   resize    the window changed size (the terminal and the application are told)              *)
(*   settled   the loop went idle and the input completion timeout has passed: everything       *)
(*             typed so far is decoded by the reference decoder (InputDecoderOps), the keys are  *)
(*             folded through the Session model (SessionOps, with the reference editor EditOps)  *)
(*             and the reference terminal must show exactly ExpectedScreen of that state         *)
(*   final     run() returned: the model must have seen 'esc'; the terminal must be restored     *)
(*             (MainLoopOps!Restored)                                                            *)
(* Everything here extends the listed properties (whole-application conformance): the driver    *)
(* reports every rejection as DIVERGENCE.                                                       *)
EXTENDS SessionOps, Json, IOUtils

Traces == JsonDeserialize(IOEnv.TRACE_FILE)
Spell == JsonDeserialize(IOEnv.SPELL_FILE)      \* key name -> its spelling as code points (plain data: TLC cannot index strings)

VARIABLES tid, l, term, ok, why, st, pend
vars == <<tid, l, term, ok, why, st, pend>>

RD == INSTANCE RawDisplayTrace        \* Terminal.tla + token interpretation
D == INSTANCE InputDecoderOps         \* reference input decoder + frozen key table
ML == INSTANCE MainLoopOps            \* terminal restoration predicate of C12

AppOf(tr) == tr.app

Init == /\ tid \in 1..Len(Traces)
        /\ l = 0
        /\ term = RD!NewTerm(Traces[tid].w, Traces[tid].h)
        /\ ok = TRUE /\ why = "-"
        /\ st = InitState(AppOf(Traces[tid]), Traces[tid].w, Traces[tid].h)
        /\ pend = <<>>

(* ---- decoder event -> key of the model ---- *)
AsciiIdx(name) == IF \E i \in 1..Len(D!Ascii) : D!Ascii[i] = name THEN CHOOSE i \in 1..Len(D!Ascii) : D!Ascii[i] = name ELSE 0
SpellOf(name) == IF name \in DOMAIN Spell THEN Spell[name] ELSE <<>>
InScope(e) == \/ e.k = "char"
              \/ e.k = "key" /\ (AsciiIdx(e.name) > 0 \/ e.name \in DOMAIN Spell)
KeyOf(e) ==
  IF e.k = "char" THEN (IF e.name = "" THEN [name |-> "char", cp |-> e.a, sp |-> <<e.a>>]
                        ELSE [name |-> e.name \o "char", cp |-> 0, sp |-> SpellOf(e.name) \o <<e.a>>])
  ELSE IF AsciiIdx(e.name) > 0 THEN [name |-> e.name, cp |-> 31 + AsciiIdx(e.name), sp |-> <<31 + AsciiIdx(e.name)>>]
  ELSE [name |-> e.name, cp |-> 0, sp |-> SpellOf(e.name)]
KeysOf(evs) == [i \in 1..Len(evs) |-> KeyOf(evs[i])]

\* decode what is pending (more = further bytes may still complete a sequence) and fold the keys through the model
Absorb(tr, more) ==
  LET d == D!DecodeAll(pend, more, "utf8", <<>>) IN
  [st |-> Keys(AppOf(tr), st, KeysOf(d.evs)), rest |-> d.rest,
   bad |-> d.unspec \/ \E i \in 1..Len(d.evs) : ~InScope(d.evs[i])]

(* ---- the screen ---- *)
DefaultPen(c) == c.fg = -1 /\ c.bg = -1 /\ c.fl = {}
ScreenVerdict(tr, s) ==
  LET app == AppOf(tr)
      exp == ExpectedScreen(app, s)
      badtext == {p \in (1..s.rows) \X (1..s.cols) :
                    term.grid[p[1]][p[2]].c # exp.cells[p[1]][p[2]][1] \/ term.grid[p[1]][p[2]].p # exp.cells[p[1]][p[2]][2]}
  IN IF ~Fits(app, s) THEN "harness.model_assumption_broken"
     ELSE IF term.w # s.cols \/ term.h # s.rows THEN "harness.terminal_size"
     ELSE IF term.scrolled THEN "e2e.never_scrolls"
     ELSE IF badtext # {} THEN (IF \A p \in badtext : p[1] = s.rows THEN "e2e.footer_shows_unhandled_key" ELSE "e2e.screen_text")
     ELSE IF \E y \in 1..s.rows : \E x \in 1..s.cols : ~DefaultPen(term.grid[y][x]) THEN "e2e.screen_attributes"
     ELSE IF exp.cur = <<>> /\ term.curs THEN "e2e.cursor_hidden_without_selectable_focus"
     ELSE IF exp.cur # <<>> /\ (~term.curs \/ term.cx # exp.cur[1] \/ term.cy # exp.cur[2]) THEN "e2e.cursor_cell"
     ELSE IF term.irm THEN "e2e.insert_mode_left_on"
     ELSE "-"

RECURSIVE PutAll(_, _, _, _)
PutAll(t, cs, ws, i) == IF i > Len(cs) THEN t ELSE PutAll(IF ws[i] = 0 THEN t ELSE RD!Put(t, cs[i], ws[i]), cs, ws, i + 1)

TermTokens == {"put", "zw", "cup", "bs", "cr", "lf", "cuu", "cud", "cuf", "cub", "sgr", "el", "ed", "ich", "irm", "so", "si",
               "desig", "decset", "keypad"}

Step ==
  /\ ok /\ l < Len(Traces[tid].ev) /\ l' = l + 1 /\ tid' = tid
  /\ LET tr == Traces[tid]
         e == tr.ev[l + 1]
     IN CASE e.t \in TermTokens ->
               /\ term' = RD!Apply(e) /\ st' = st /\ pend' = pend /\ why' = "-" /\ ok' = TRUE
          [] e.t = "puts" ->
               /\ term' = PutAll(term, e.cs, e.ws, 1) /\ st' = st /\ pend' = pend /\ why' = "-" /\ ok' = TRUE
          [] e.t = "input" ->
               /\ pend' = pend \o e.bytes /\ term' = term /\ st' = st /\ why' = "-" /\ ok' = TRUE
          [] e.t = "resize" ->       \* keys completely received before the resize are handled at the old size
               LET a == Absorb(tr, TRUE) IN
               /\ st' = ResizeStep(a.st, e.w, e.h) /\ pend' = a.rest
               /\ term' = RD!Resize(term, e.w, e.h)
               /\ why' = IF a.bad THEN "harness.input_out_of_scope" ELSE "-"
               /\ ok' = ~a.bad
          [] e.t = "settled" ->
               LET a == Absorb(tr, FALSE)
                   v == IF a.bad \/ a.rest # <<>> THEN "harness.input_out_of_scope"
                        ELSE IF a.st.done THEN "e2e.exit_on_esc"          \* 'esc' was typed and the session is still running
                        ELSE ScreenVerdict(tr, a.st)
               IN /\ st' = a.st /\ pend' = <<>> /\ term' = term /\ why' = v /\ ok' = (v = "-")
          [] e.t = "final" ->
               LET a == Absorb(tr, FALSE)
                   r == ML!Restored([term |-> term], e)
                   v == IF a.bad \/ a.rest # <<>> THEN "harness.input_out_of_scope"
                        ELSE IF e.exc # "" THEN "e2e.session_never_raises"
                        ELSE IF e.forced \/ ~a.st.done THEN "e2e.exit_on_esc"    \* ended without 'esc', or 'esc' did not end it
                        ELSE IF e.unknown > 0 THEN "e2e.unknown_control_sequence"
                        ELSE IF r # "-" THEN "e2e.terminal_restored_at_end." \o r
                        ELSE "-"
               IN /\ st' = a.st /\ pend' = <<>> /\ term' = term /\ why' = v /\ ok' = (v = "-")
          [] OTHER ->
               /\ term' = term /\ st' = st /\ pend' = pend /\ why' = "no_action" /\ ok' = FALSE
Spec == Init /\ [][Step]_vars
Report == ok \/ PrintT(<<"REJECT", tid, l, why>>)
===============================================================================
