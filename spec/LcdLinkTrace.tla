---------------------------- MODULE LcdLinkTrace ----------------------------
(* X03 trace validation: events recorded from the real urwid.display.lcd classes are        *)
(* consumed one by one; the model of LcdLink (host queue, command in flight, unparsed        *)
(* input, key-repeat timer, the packets and bytes on the line in both directions, the         *)
(* reference CFA-635 and the device "as it will be once every accepted command has run") is   *)
(* carried in `m`; every clause is evaluated at every event, the first broken one is named    *)
(* in `why`.  Clauses starting with HARNESS_ are self-checks of the driver.                   *)
(*                                                                                          *)
(* trace = [kind, delay, nxt, keymap, same, tnone, ev]                                       *)
(*   kind "link": a CF635Screen on a fake serial port with a scripted device and line         *)
(*        "krs" : a KeyRepeatSimulator alone;  "parse": _parse_data;  "crc": get_crc          *)
(*   delay, nxt : repeat_delay / repeat_next in ticks (1 tick = 1/64 s: exact in floats)       *)
(*   same, tnone: 1 = judge with urwid's known divergences adopted (so that the rest of the    *)
(*        trace is still checked): same -- pressing a key that is already down counts as a     *)
(*        second key; tnone -- the timeout returned by the call that sends a repeat is None    *)
(* link events (each carries nothing but what the code returned / wrote and cheap state)      *)
(*   call   : op, a, exc, wrote, queue, infl     public setter / queue_command                *)
(*   draw   : size, rows, cur, exc, wrote, queue, infl                                        *)
(*   poll   : took, wrote, keys, raw, timeout, exc, unproc, queue, infl, held, multi           *)
(*   dev    : emit        the device consumes the oldest packet the host wrote                 *)
(*   devkey : code, emit  the device reports key activity                                      *)
(*   junk   : bytes;  corrupt : idx, val;  deliver : n;  time : dt;  settled                   *)
EXTENDS LcdLinkOps, Json, IOUtils

Traces == JsonDeserialize(IOEnv.TRACE_FILE)
W == 20
H == 4
MD == 22

VARIABLES tid, l, ok, why, m
vars == <<tid, l, ok, why, m>>

NoCv == [rows |-> <<>>, cur |-> <<>>, style |-> -1]
M0 == [h |-> Host0(4), h2d |-> <<>>, transit |-> <<>>, rx |-> <<>>, dev |-> Dev0(W, H), pd |-> Dev0(W, H),
       cv |-> NoCv, now |-> 0, lastr |-> 0]
Init == /\ tid \in 1..Len(Traces) /\ l = 0 /\ ok = TRUE /\ why = "-" /\ m = M0

CfgOf(tr) == [md |-> MD, delay |-> tr.delay, nxt |-> tr.nxt, keymap |-> tr.keymap, same |-> tr.same = 1, tnone |-> tr.tnone = 1, v |-> "ok"]
Cmds(q) == [i \in 1..Len(q) |-> [c |-> q[i].c, d |-> q[i].d]]
AsSet(s) == {s[i] : i \in 1..Len(s)}
R(v, mm) == [v |-> v, m |-> mm]

(* ---- setters and queue_command ---- *)
CallStep(tr, e) ==
  LET ref == Setter(e.op, e.a)
      st == QueueAll([h |-> m.h, wrote |-> <<>>], ref.cmds, 1, "ok")
      h1 == IF e.op = "cursor_style" /\ ref.exc = "" THEN [st.h EXCEPT !.style = e.a[1], !.upd = TRUE] ELSE st.h
      mm == [m EXCEPT !.h = h1, !.h2d = @ \o st.wrote, !.pd = DevExecAll(@, ref.cmds, 1, W, H)]
      v == IF ref.exc # "" /\ e.exc # ref.exc THEN "invalid_argument_raises_ValueError"
           ELSE IF ref.exc = "" /\ e.exc # "" THEN "valid_call_does_not_raise"
           ELSE IF ref.exc # "" /\ (e.wrote # <<>> \/ Cmds(e.queue) # m.h.queue \/ e.infl # m.h.infl) THEN "rejected_call_changes_nothing"
           ELSE IF e.wrote # Flat(st.wrote)
                THEN (IF Len(e.wrote) > Len(Flat(st.wrote)) THEN "one_command_in_flight"
                      ELSE IF e.wrote = <<>> THEN "idle_line_sends_immediately"
                      ELSE IF ReadAll(e.wrote, MD, "ok").rest # <<>> \/ Len(ReadAll(e.wrote, MD, "ok").pkts) # 1 THEN "packet_framing_and_crc"
                      ELSE "setter_command_" \o e.op)
           ELSE IF Cmds(e.queue) # st.h.queue THEN (IF Len(e.queue) = Len(st.h.queue) THEN "setter_command_" \o e.op ELSE "commands_wait_in_queue_order")
           ELSE IF e.infl # st.h.infl THEN "command_in_flight_recorded"
           ELSE "-"
  IN R(v, mm)

(* ---- draw_screen: a predicate over what was queued ---- *)
DrawStep(tr, e) ==
  LET cv == [rows |-> e.rows, cur |-> e.cur, style |-> m.h.style]
      sent == ReadAll(e.wrote, MD, "ok")
      all == sent.pkts \o Cmds(e.queue)
      q0 == m.h.queue
      new == SubSeq(all, Len(q0) + 1, Len(all))
      st == QueueAll([h |-> m.h, wrote |-> <<>>], new, 1, "ok")
      pd1 == DevExecAll(m.pd, new, 1, W, H)
      curcmds == {i \in 1..Len(new) : new[i].c \in {CmdCursorPos, CmdCursorStyle}}
      mm == [m EXCEPT !.h = [st.h EXCEPT !.upd = FALSE], !.h2d = @ \o st.wrote, !.pd = pd1, !.cv = cv]
      v == IF e.size # <<W, H>>
           THEN (IF e.exc # "ValueError" THEN "wrong_size_raises_ValueError"
                 ELSE IF e.wrote # <<>> \/ Cmds(e.queue) # q0 THEN "rejected_call_changes_nothing" ELSE "-")
           ELSE IF e.exc # "" THEN "valid_call_does_not_raise"
           ELSE IF sent.rest # <<>> THEN "packet_framing_and_crc"
           ELSE IF ~IsPrefix(q0, all) THEN "commands_wait_in_queue_order"
           ELSE IF e.wrote # Flat(st.wrote) THEN (IF Len(e.wrote) > Len(Flat(st.wrote)) THEN "one_command_in_flight" ELSE "idle_line_sends_immediately")
           ELSE IF e.infl # st.h.infl THEN "command_in_flight_recorded"
           ELSE IF \E i \in 1..Len(new) : ~Valid(new[i], W, H) THEN "draw_sends_valid_commands"
           ELSE IF ~ShowsText(pd1, cv) THEN "display_shows_canvas_after_acks"
           ELSE IF ~ShowsCursor(pd1, cv, m.h.style) THEN "cursor_matches_canvas_after_acks"
           ELSE IF \E i \in 1..Len(new) : RedundantRow(m.pd, new[i]) THEN "unchanged_rows_not_resent"
           ELSE IF ~m.h.upd /\ ShowsCursor(m.pd, cv, m.h.style) /\ curcmds # {} THEN "unchanged_cursor_not_resent"
           ELSE "-"
  IN R(v, IF e.size # <<W, H>> THEN m ELSE mm)

(* ---- get_input_nonblocking ---- *)
PollStep(tr, e) ==
  LET cfg == CfgOf(tr)
      x == PollRef(m.h, e.took, m.now, cfg)
      presses == IF x.fired THEN SubSeq(x.keys, 1, Len(x.keys) - 1) ELSE x.keys
      kr0 == m.h.kr
      nk == Len(e.keys)
      extra == nk = Len(x.keys) + 1 /\ SubSeq(e.keys, 1, nk - 1) = x.keys /\ ~x.fired
      which == IF m.lastr = 1 /\ presses = <<>> THEN "next_repeat_every_repeat_next" ELSE "first_repeat_after_repeat_delay"
      mm == [m EXCEPT !.h = x.h, !.h2d = @ \o x.wrote, !.rx = SubSeq(@, Len(e.took) + 1, Len(@)),
                      !.lastr = IF x.fired THEN 1 ELSE IF presses # <<>> THEN 0 ELSE @]
      v == IF ~IsPrefix(e.took, m.rx) THEN "HARNESS_took_bytes_not_delivered"
           ELSE IF e.exc # "" THEN "poll_never_raises"
           ELSE IF m.rx # <<>> /\ e.took = <<>> THEN "poll_reads_available_input"
           ELSE IF e.unproc # x.h.buf
                THEN (IF Len(x.pkts) > 0 /\ Len(e.unproc) > Len(x.h.buf) THEN "good_packet_recognised_after_resynchronisation"
                      ELSE "unparsed_tail_kept_for_next_read")
           ELSE IF e.wrote # Flat(x.wrote)
                THEN (IF x.wrote = <<>> THEN "nothing_sent_without_acknowledgement"
                      ELSE IF e.wrote = <<>> THEN "next_command_sent_when_acknowledged"
                      ELSE IF ReadAll(e.wrote, MD, "ok").rest # <<>> THEN "packet_framing_and_crc"
                      ELSE "commands_sent_in_queue_order_exactly_once")
           ELSE IF Cmds(e.queue) # x.h.queue THEN "commands_sent_in_queue_order_exactly_once"
           ELSE IF e.infl # x.h.infl THEN "command_in_flight_recorded"
           ELSE IF e.keys # x.keys
                THEN (IF x.fired /\ e.keys = presses THEN which
                      ELSE IF extra /\ KrPending(x.h.kr) THEN which
                      ELSE IF extra /\ x.h.kr.held = {} THEN "no_repeat_after_release"
                      ELSE IF extra THEN "no_repeat_while_several_keys_held"
                      ELSE "key_reports_become_key_names_in_order")
           ELSE IF e.raw # x.raw THEN "raw_keycodes_are_report_codes"
           ELSE IF AsSet(e.held) # x.h.kr.held THEN "released_key_is_forgotten"
           ELSE IF (e.multi = 1) # x.h.kr.multi
                THEN (IF ~cfg.same /\ PollRef(m.h, e.took, m.now, [cfg EXCEPT !.same = TRUE]).h.kr.multi = (e.multi = 1)
                      THEN "same_key_pressed_twice_is_still_one_key" ELSE "several_keys_disable_repeat_until_all_released")
           ELSE IF e.timeout # x.timeout
                THEN (IF x.fired THEN "timeout_after_sent_repeat_is_repeat_next" ELSE "timeout_is_time_to_next_repeat")
           ELSE "-"
  IN R(v, mm)

(* ---- the scripted device and line ---- *)
DevStep(tr, e) ==
  IF m.h2d = <<>> THEN R("HARNESS_device_has_nothing_to_process", m)
  ELSE LET cmd == PktCmd(m.h2d[1], MD)
           good == cmd.c # -1
           rep == DevReply(cmd, W, H)
           emit == IF good THEN Packet(rep.c, rep.d) ELSE <<>>
           mm == [m EXCEPT !.h2d = Tail(@), !.dev = IF good THEN DevExec(@, cmd, W, H) ELSE @, !.transit = @ \o emit]
       IN R(IF e.emit # emit THEN "HARNESS_device_reply_differs_from_reference" ELSE "-", mm)

DevKeyStep(tr, e) ==
  LET emit == Packet(KeyActivity, <<e.code>>) IN
  R(IF e.emit # emit THEN "HARNESS_key_report_differs_from_reference" ELSE "-", [m EXCEPT !.transit = @ \o emit])

LineStep(tr, e) ==
  CASE e.t = "junk" -> R("-", [m EXCEPT !.transit = @ \o e.bytes])
    [] e.t = "corrupt" -> IF e.idx \in 1..Len(m.transit) THEN R("-", [m EXCEPT !.transit[e.idx] = e.val])
                          ELSE R("HARNESS_corrupt_index", m)
    [] e.t = "deliver" -> IF e.n <= Len(m.transit)
                          THEN R("-", [m EXCEPT !.rx = @ \o SubSeq(m.transit, 1, e.n), !.transit = SubSeq(@, e.n + 1, Len(@))])
                          ELSE R("HARNESS_deliver_count", m)
    [] e.t = "time" -> R("-", [m EXCEPT !.now = @ + e.dt])

\* nothing queued, nothing in flight, every packet processed: the device is where the accepted commands lead, and shows the canvas
SettledStep(tr, e) ==
  LET quiet == m.h.queue = <<>> /\ m.h.infl = NoCmd /\ m.h2d = <<>>
      v == IF ~quiet THEN "-"
           ELSE IF m.dev # m.pd THEN "every_accepted_command_executed_once_in_order"
           ELSE IF m.cv.style # -1 /\ ~ShowsText(m.dev, m.cv) THEN "display_shows_canvas_after_acks"
           ELSE IF m.cv.style # -1 /\ ~ShowsCursor(m.dev, m.cv, m.cv.style) THEN "cursor_matches_canvas_after_acks"
           ELSE "-"
  IN R(v, m)

(* ---- KeyRepeatSimulator alone ---- *)
KrsStep(tr, e) ==
  LET cfg == CfgOf(tr)
      kr == m.h.kr
      kr1 == CASE e.op = "press" -> KrPress(kr, e.key, m.now, cfg)
               [] e.op = "release" -> KrRelease(kr, e.key, cfg)
               [] e.op = "sent" -> KrSent(kr, m.now, cfg)
               [] OTHER -> kr
      mm == [m EXCEPT !.h.kr = kr1, !.now = IF e.op = "time" THEN @ + e.dt ELSE @]
      v == IF e.op = "time" THEN "-"
           ELSE IF e.op = "next" /\ e.res # KrNext(kr, m.now)
                THEN (IF KrNext(kr, m.now) = <<>> THEN (IF kr.held = {} THEN "no_event_pending_without_a_held_key" ELSE "several_keys_disable_repeat_until_all_released")
                      ELSE IF e.res = <<>> THEN "single_held_key_has_a_pending_event"
                      ELSE IF e.res[2] # KrNext(kr, m.now)[2] THEN "pending_event_is_for_the_held_key"
                      ELSE "remaining_time_counts_from_press_then_from_each_sent_event")
           ELSE IF AsSet(e.held) # kr1.held THEN (IF e.op = "release" THEN "released_key_is_forgotten" ELSE "pressed_key_is_remembered")
           ELSE IF (e.multi = 1) # kr1.multi
                THEN (IF e.op = "press" /\ ~cfg.same /\ KrPress(kr, e.key, m.now, [cfg EXCEPT !.same = TRUE]).multi = (e.multi = 1)
                      THEN "same_key_pressed_twice_is_still_one_key" ELSE "several_keys_disable_repeat_until_all_released")
           ELSE "-"
  IN R(v, mm)

(* ---- _parse_data and get_crc ---- *)
ParseStep(tr, e) ==
  LET p == Parse(e.buf, MD, TRUE)
      v == IF e.k # p.k
           THEN (IF p.k = "more" THEN "incomplete_packet_asks_for_more_data"
                 ELSE IF p.k = "bad" /\ e.buf[2] > MD THEN "length_over_22_is_invalid"
                 ELSE IF p.k = "bad" THEN "crc_mismatch_is_invalid"
                 ELSE "well_formed_packet_is_recognised")
           ELSE IF p.k = "pkt" /\ (e.c # p.c \/ e.d # p.d \/ e.rest # p.rest) THEN "packet_type_data_and_remaining_bytes"
           ELSE "-"
  IN R(v, m)
CrcStep(tr, e) == R(IF e.crc # CrcBytes(e.buf) THEN "crc_is_the_data_sheet_crc_low_byte_first" ELSE "-", m)

StepOf(tr, e) ==
  CASE tr.kind = "krs" -> KrsStep(tr, e)
    [] tr.kind = "parse" -> ParseStep(tr, e)
    [] tr.kind = "crc" -> CrcStep(tr, e)
    [] e.t = "call" -> CallStep(tr, e)
    [] e.t = "draw" -> DrawStep(tr, e)
    [] e.t = "poll" -> PollStep(tr, e)
    [] e.t = "dev" -> DevStep(tr, e)
    [] e.t = "devkey" -> DevKeyStep(tr, e)
    [] e.t \in {"junk", "corrupt", "deliver", "time"} -> LineStep(tr, e)
    [] e.t = "settled" -> SettledStep(tr, e)
    [] OTHER -> R("HARNESS_unknown_event", m)

Step ==
  /\ ok /\ l < Len(Traces[tid].ev) /\ l' = l + 1 /\ tid' = tid
  /\ \E r \in {StepOf(Traces[tid], Traces[tid].ev[l + 1])} :               \* (a bound variable is evaluated once)
        /\ why' = r.v /\ ok' = (r.v = "-") /\ m' = r.m
Spec == Init /\ [][Step]_vars

Report == ok \/ PrintT(<<"REJECT", tid, l, why>>)
===============================================================================
