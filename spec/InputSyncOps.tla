---------------------------- MODULE InputSyncOps ----------------------------
(* C05, the synchronous path (Screen.get_input used without an event loop): contract of     *)
(* one get_input() call over time.  Times are integers (milliseconds of a clock the          *)
(* driver controls); cw = complete_wait: "amount of time to wait when get_input detects an   *)
(* incomplete escape sequence at the end of the available input" (set_input_timeouts).       *)
(*                                                                                          *)
(* State between calls: p = bytes of an incomplete sequence carried over, tl = the time      *)
(* the last of them were read.  Inside a call the implementation may read bytes (reads =     *)
(* sequence of [t = time read, a = time they arrived, b = bytes]) and returns at t1.         *)
(*   - bytes read while older ones are carried are decoded together with them ("the          *)
(*     remainder arriving before the completion timeout yields the same events"), however    *)
(*     many calls that found nothing to read were made in between and whatever max_wait is;  *)
(*   - carried bytes whose completion timeout has expired (no byte read for cw) are decoded  *)
(*     as they stand: at the latest by a call that returns at or after tl + cw, and before   *)
(*     bytes that arrived after the expiry;                                                  *)
(*   - a call returning before tl + cw that read nothing reports nothing.                    *)
EXTENDS InputDecoderOps

SyncStart(p, tl) == [p |-> p, tl |-> tl, evs |-> <<>>, raw |-> <<>>, unspec |-> FALSE]

\* bytes b that arrived at a are read at t
SyncRead(s, t, a, b, cw, mode) ==
  LET late == s.p # <<>> /\ a - s.tl > cw                   \* they arrived after the completion timeout of what is carried
      \* arrived before (or at the very moment of) the expiry but read at or after it (the application was busy, or the
      \* timeout and the arrival coincide): either order is defensible
      amb == s.p # <<>> /\ a - s.tl <= cw /\ t - s.tl >= cw
      f == IF late THEN DecodeAll(s.p, FALSE, mode, <<>>) ELSE [evs |-> <<>>, rest |-> <<>>, unspec |-> FALSE]
      p0 == IF late THEN <<>> ELSE s.p
      r == DecodeAll(p0 \o b, TRUE, mode, <<>>)
      all == s.p \o b
  IN [p |-> r.rest, tl |-> t, evs |-> s.evs \o f.evs \o r.evs,
      raw |-> s.raw \o Take(all, Len(all) - Len(r.rest)),
      unspec |-> s.unspec \/ amb \/ f.unspec \/ r.unspec]

\* the call returns at t1
SyncEnd(s, t1, cw, mode) ==
  IF s.p # <<>> /\ t1 - s.tl >= cw
  THEN LET f == DecodeAll(s.p, FALSE, mode, <<>>)
       IN [s EXCEPT !.p = <<>>, !.evs = @ \o f.evs, !.raw = @ \o s.p, !.unspec = @ \/ f.unspec]
  ELSE s

RECURSIVE SyncFold(_, _, _, _, _)
SyncFold(s, reads, i, cw, mode) ==
  IF i > Len(reads) THEN s
  ELSE SyncFold(SyncRead(s, reads[i].t, reads[i].a, reads[i].b, cw, mode), reads, i + 1, cw, mode)

\* result of one call: [p, tl] = state carried to the next call, evs = the keys it must return, raw = the raw codes of those keys
SyncCall(p, tl, reads, t1, cw, mode) == SyncEnd(SyncFold(SyncStart(p, tl), reads, 1, cw, mode), t1, cw, mode)

\* an implementation for which the completion timeout never expires
Never == 1000000000
=============================================================================
