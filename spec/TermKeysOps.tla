----------------------------- MODULE TermKeysOps -----------------------------
(* X02: the Terminal widget (urwid/vterm.py class Terminal) seen from the keyboard side.   *)
(* Operators without variables, shared by the state machine TermKeys and the trace          *)
(* specification TermKeysTrace.                                                             *)
(*                                                                                          *)
(* Sources.  The child is told TERM=linux (Terminal.spawn), so unmodified keys are encoded  *)
(* as the linux console / terminfo `linux` entry documents them (kcuu1=\E[A, khome=\E[1~,   *)
(* kf1=\E[[A .. kf5=\E[[E, kf6=\E[17~ .., kbs=^?, kcbt=\E[Z); the two modes a child can set *)
(* that change what keys send are taken from xterm's ctlseqs: DECCKM (CSI ? 1 h: cursor     *)
(* keys send SS3 instead of CSI) and LNM (CSI 20 h: Return sends CR LF).  Keys with          *)
(* modifiers: Meta sends an ESC prefix (xterm metaSendsEscape, linux console, and the rule  *)
(* urwid's own input decoder documents: ESC-prefix = meta); shift/ctrl/meta on cursor,      *)
(* editing and function keys may either send a sequence urwid's own input table             *)
(* (InputTable) reads back as that key, or degrade to the unmodified key as the linux       *)
(* console does.  The keyboard-grab protocol (escape_sequence, default 'ctrl a') is the      *)
(* Terminal docstring plus the statements in keypress().                                    *)
EXTENDS InputDecoderOps

(* ---------------- byte helpers ---------------- *)
RECURSIVE Digits(_)
Digits(n) == IF n < 10 THEN <<48 + n>> ELSE Digits(n \div 10) \o <<48 + (n % 10)>>
CSI(s) == <<27, 91>> \o s
SS3(s) == <<27, 79>> \o s
Tilde(n) == CSI(Digits(n) \o <<126>>)
RECURSIVE Flat(_)
Flat(ss) == IF ss = <<>> THEN <<>> ELSE Head(ss) \o Flat(Tail(ss))
RECURSIVE JoinSemi(_)
JoinSemi(ps) == IF ps = <<>> THEN <<>> ELSE IF Len(ps) = 1 THEN Digits(ps[1]) ELSE Digits(ps[1]) \o <<59>> \o JoinSemi(Tail(ps))
FnOf(S) == [x \in {p[1] : p \in S} |-> (CHOOSE p \in S : p[1] = x)[2]]

(* ---------------- characters in the widget's encoding ---------------- *)
\* `encoding`: "the encoding that is being used when local keypresses in Unicode are encoded into raw bytes";
\* a character the encoding cannot express sends nothing.
Utf8Enc(cp) ==
  IF cp >= 55296 /\ cp <= 57343 THEN <<>>
  ELSE IF cp < 128 THEN <<cp>>
  ELSE IF cp < 2048 THEN <<192 + (cp \div 64), 128 + (cp % 64)>>
  ELSE IF cp < 65536 THEN <<224 + (cp \div 4096), 128 + ((cp \div 64) % 64), 128 + (cp % 64)>>
  ELSE <<240 + (cp \div 262144), 128 + ((cp \div 4096) % 64), 128 + ((cp \div 64) % 64), 128 + (cp % 64)>>
EncChar(cp, enc) ==
  CASE enc = "utf8" -> Utf8Enc(cp)
    [] enc = "latin1" -> IF cp < 256 THEN <<cp>> ELSE <<>>
    [] OTHER -> IF cp < 128 THEN <<cp>> ELSE <<>>          \* "ascii"

(* ---------------- key names ---------------- *)
Simple == {"enter", "tab", "backspace", "esc"}
CursorFinal == "up" :> 65 @@ "down" :> 66 @@ "right" :> 67 @@ "left" :> 68
Cursor == DOMAIN CursorFinal
EditNum == "home" :> 1 @@ "insert" :> 2 @@ "delete" :> 3 @@ "end" :> 4 @@ "page up" :> 5 @@ "page down" :> 6
Edit == DOMAIN EditNum
FnLinux == "f1" :> 65 @@ "f2" :> 66 @@ "f3" :> 67 @@ "f4" :> 68 @@ "f5" :> 69            \* CSI [ A .. CSI [ E
FnXterm == "f1" :> SS3(<<80>>) @@ "f2" :> SS3(<<81>>) @@ "f3" :> SS3(<<82>>) @@ "f4" :> SS3(<<83>>) @@ "f5" :> Tilde(15)
FnTilde == "f6" :> 17 @@ "f7" :> 18 @@ "f8" :> 19 @@ "f9" :> 20 @@ "f10" :> 21 @@ "f11" :> 23 @@ "f12" :> 24
Fn15 == DOMAIN FnLinux
Fn612 == DOMAIN FnTilde
F1320 == {"f13", "f14", "f15", "f16", "f17", "f18", "f19", "f20"}
BaseNamed == Simple \cup Cursor \cup Edit \cup Fn15 \cup Fn612
PasteNum == "begin paste" :> 200 @@ "end paste" :> 201
PasteKeys == DOMAIN PasteNum
Resize == "window resize"

\* 'ctrl x' -> control byte (letters 1..26, punctuation @ [ \ ] ^ _ -> 0, 27..31)
CtrlMap == FnOf({<<"ctrl " \o Chr(96 + c), c>> : c \in 1..26} \cup {<<"ctrl " \o Chr(64 + c), c>> : c \in {0} \cup (27..31)})
CtrlKeys == DOMAIN CtrlMap
AsciiNames == {Ascii[i] : i \in 1..95}

\* modifier prefixes in the order urwid's decoder builds them (shift, meta, ctrl)
Prefixes == {"shift ", "meta ", "ctrl ", "shift meta ", "shift ctrl ", "meta ctrl ", "shift meta ctrl "}
Modifiable == Cursor \cup Edit \cup Fn15 \cup Fn612 \cup F1320
ModBase == FnOf({<<z[1] \o z[2], z[2]>> : z \in Prefixes \X Modifiable})      \* 'shift up' -> 'up'
MetaBase == FnOf({<<"meta " \o b, b>> : b \in BaseNamed \cup CtrlKeys})        \* 'meta enter' -> 'enter'
IsChar(cps) == Len(cps) = 1
IsMetaChar(cps) == Len(cps) = 6 /\ SubSeq(cps, 1, 5) = <<109, 101, 116, 97, 32>>

\* urwid's default command map (docs/manual: "command_map"): keys a container uses for navigation
CommandKeys == {"tab", "ctrl n", "shift tab", "ctrl p", "ctrl l", "esc", "up", "down", "left", "right",
                "page up", "page down", "home", "end", " ", "enter"}

(* ---------------- reference encodings ---------------- *)
\* every byte string urwid's own documented input table reads back as key k
TableInv(k) == {<<27>> \o s : s \in {t \in DOMAIN Table : Table[t] = k}}

NamedBytes(k, ckm, lnm) ==
  IF k = "enter" THEN {IF lnm THEN <<13, 10>> ELSE <<13>>}
  ELSE IF k = "tab" THEN {<<9>>}
  ELSE IF k = "backspace" THEN {<<127>>}
  ELSE IF k = "esc" THEN {<<27>>}
  ELSE IF k \in Cursor THEN {IF ckm THEN SS3(<<CursorFinal[k]>>) ELSE CSI(<<CursorFinal[k]>>)}
  ELSE IF k \in Edit THEN {Tilde(EditNum[k])}
  \* f1..f5: the linux console form; under application cursor keys urwid switches to xterm's PC-style form
  \* (which xterm itself sends in every mode), so both are accepted there
  ELSE IF k \in Fn15 THEN (IF ckm THEN {CSI(<<91, FnLinux[k]>>), FnXterm[k]} ELSE {CSI(<<91, FnLinux[k]>>)})
  ELSE IF k \in Fn612 THEN {Tilde(FnTilde[k])}
  ELSE {}

\* keys without modifier prefix ({} = no documented encoding at this level)
Base1(key, cps, ckm, lnm, enc) ==
  IF IsChar(cps) THEN {EncChar(cps[1], enc)}
  ELSE IF key \in BaseNamed THEN NamedBytes(key, ckm, lnm)
  ELSE IF key = "ctrl m" THEN NamedBytes("enter", ckm, lnm)      \* on a terminal ctrl-M is the Return key
  ELSE IF key \in CtrlKeys THEN {<<CtrlMap[key]>>}
  ELSE IF key \in F1320 THEN TableInv(key)
  ELSE {}

NoCps == <<0, 0>>
\* the set of byte strings the child may receive for a key that is passed to it; {} = the key name is unknown to this spec
RefBytes(key, cps, ckm, lnm, enc) ==
  LET b1 == Base1(key, cps, ckm, lnm, enc) IN
  IF b1 # {} THEN b1
  ELSE IF IsMetaChar(cps) THEN {<<27>> \o EncChar(cps[6], enc)}
  ELSE IF key = "shift tab" THEN {CSI(<<90>>)}
  ELSE IF key \in PasteKeys THEN {Tilde(PasteNum[key])}
  ELSE (IF key \in DOMAIN MetaBase THEN {<<27>> \o s : s \in Base1(MetaBase[key], NoCps, ckm, lnm, enc)} \cup TableInv(key) ELSE {})
       \cup (IF key \in DOMAIN ModBase THEN TableInv(key) \cup Base1(ModBase[key], NoCps, ckm, lnm, enc) ELSE {})

\* the sentence a wrong byte string breaks
BytesClause(key, cps) ==
  IF IsChar(cps) THEN "char_in_widget_encoding"
  ELSE IF key = "enter" THEN "enter_sends_cr_and_lf_only_in_newline_mode"
  ELSE IF key \in Cursor THEN "cursor_keys_ss3_in_application_mode_else_csi"
  ELSE IF key \in Simple THEN "tab_backspace_esc_single_byte"
  ELSE IF key \in Edit THEN "editing_keys_csi_tilde"
  ELSE IF key \in Fn15 \cup Fn612 THEN "function_keys_linux_console"
  ELSE IF key \in CtrlKeys THEN "ctrl_key_is_control_byte"
  ELSE IF key \in F1320 THEN "function_keys_f13_f20"
  ELSE IF key \in PasteKeys THEN "paste_markers_passed_in_bracketed_paste_mode"
  ELSE IF key = "shift tab" THEN "shift_tab_sends_back_tab"
  ELSE IF key \in DOMAIN ModBase THEN "modified_named_key_sends_its_sequence_or_the_plain_key"
  ELSE "meta_key_sends_esc_prefix"

(* ---------------- keyboard grab protocol ---------------- *)
\* st = [alive, grab, lastesc, bp]; esc = the widget's escape_sequence.  Result: route + next grab/lastesc.
\*  child    : the key is written to the child           dead     : the child has terminated, key returned
\*  handdown : returned unhandled to the container        swallow  : paste marker outside bracketed paste mode
\*  release  : escape sequence stops grabbing             take     : escape sequence starts grabbing
\*  scroll   : page up/down scroll the widget's scrollback while the keyboard is not grabbed
\*  resize   : 'window resize' sets the child's window size (not a key press: the escape protocol does not see it)
R(r, g, le) == [r |-> r, grab |-> g, lastesc |-> le]
Route(st, key, esc) ==
  IF ~st.alive THEN R("dead", st.grab, st.lastesc)
  ELSE IF key \in PasteKeys /\ ~st.bp THEN R("swallow", st.grab, key = esc)
  ELSE IF key = Resize THEN R("resize", st.grab, st.lastesc)
  ELSE IF key = esc /\ st.lastesc THEN R("child", TRUE, TRUE)            \* "escape sequence pressed twice ... pass it to the terminal"
  ELSE IF st.grab THEN (IF key = esc THEN R("release", FALSE, TRUE)      \* "stop grabbing the terminal"
                        ELSE R("child", TRUE, FALSE))
  ELSE IF key \in {"page up", "page down"} THEN R("scroll", FALSE, FALSE)
  ELSE IF st.lastesc THEN R("handdown", FALSE, FALSE)                    \* "hand down keypress directly after ungrab"
  ELSE IF key = esc THEN R("take", TRUE, TRUE)                           \* "start grabbing the terminal"
  ELSE IF key \notin CommandKeys \/ key = "enter" THEN R("child", TRUE, FALSE)   \* "printable character or escape sequence means: lock in terminal"
  ELSE R("handdown", FALSE, FALSE)                                       \* "hand down keypress"
Consumed == {"swallow", "release", "take", "scroll", "resize"}

(* ---------------- what the child writes ---------------- *)
\* token = [t, q, on, ps]:  "sm" (q = 1: DEC private; on = 1: h, 0: l; ps = parameters), "dsr" (ps = <<5>> | <<6>>),
\* "da" (ps = <<>> | <<0>>), "decid", "ris", "kpam", "kpnm", "text" (ps = bytes without controls)
TokBytes(tok) ==
  CASE tok.t = "sm" -> CSI((IF tok.q = 1 THEN <<63>> ELSE <<>>) \o JoinSemi(tok.ps) \o <<IF tok.on = 1 THEN 104 ELSE 108>>)
    [] tok.t = "dsr" -> CSI(JoinSemi(tok.ps) \o <<110>>)
    [] tok.t = "da" -> CSI(JoinSemi(tok.ps) \o <<99>>)
    [] tok.t = "decid" -> <<27, 90>>
    [] tok.t = "ris" -> <<27, 99>>
    [] tok.t = "kpam" -> <<27, 61>>
    [] tok.t = "kpnm" -> <<27, 62>>
    [] OTHER -> tok.ps
ChunkBytes(toks) == Flat([i \in 1..Len(toks) |-> TokBytes(toks[i])])

Modes0 == [ckm |-> FALSE, lnm |-> FALSE, bp |-> FALSE]
ApplyParam(m, q, p, on) ==
  IF q = 1 /\ p = 1 THEN [m EXCEPT !.ckm = on]
  ELSE IF q = 1 /\ p = 2004 THEN [m EXCEPT !.bp = on]
  ELSE IF q = 0 /\ p = 20 THEN [m EXCEPT !.lnm = on]
  ELSE m                                   \* other modes belong to the screen (C15); keypad modes: urwid's key names do not tell keypad keys apart
RECURSIVE ApplyParams(_, _, _, _)
ApplyParams(m, q, ps, on) == IF ps = <<>> THEN m ELSE ApplyParams(ApplyParam(m, q, Head(ps), on), q, Tail(ps), on)
ApplyTok(m, tok) ==
  IF tok.t = "sm" THEN ApplyParams(m, tok.q, tok.ps, tok.on = 1)
  ELSE IF tok.t = "ris" THEN Modes0        \* RIS: "full reset": every mode back to its initial value
  ELSE m
RECURSIVE ApplyToks(_, _)
ApplyToks(m, toks) == IF toks = <<>> THEN m ELSE ApplyToks(ApplyTok(m, Head(toks)), Tail(toks))

\* replies the widget owes the child; cur = <<x, y>> cursor (0-based) at the time of the query
CprReply(cur) == CSI(Digits(cur[2] + 1) \o <<59>> \o Digits(cur[1] + 1) \o <<82>>)
DaReply == CSI(<<63, 54, 99>>)             \* "we'll report ourself as a VT102 terminal"
DsrOk == CSI(<<48, 110>>)
TokReplies(tok, cur) ==
  IF tok.t = "dsr" /\ tok.ps = <<6>> THEN <<CprReply(cur)>>
  ELSE IF tok.t = "dsr" /\ tok.ps = <<5>> THEN <<DsrOk>>
  ELSE IF tok.t \in {"da", "decid"} THEN <<DaReply>>
  ELSE <<>>
ChunkReplies(toks, cur) == Flat([i \in 1..Len(toks) |-> TokReplies(toks[i], cur)])   \* a sequence of replies

(* ---------------- round trip through urwid's own input decoder ---------------- *)
DecoderNamed == {Table[s] : s \in DOMAIN Table} \ {"focus in", "focus out", "status ok", "begin paste", "end paste"}   \* reports / paste brackets are not key presses
DecoderCtrl == {CtrlName(c) : c \in (1..31) \cup {127}} \ {""}
\* names (longer than one character) the decoder can hand to an application
DecoderDomain == DecoderNamed \cup DecoderCtrl \cup {"esc"}
                 \cup {"meta " \o k : k \in ((DecoderNamed \ MetaNames) \cup DecoderCtrl \cup AsciiNames)}
\* keys whose round trip the documentation fixes: characters, the unmodified named keys, ctrl+letter
Plain(key, cps) == IsChar(cps) \/ key \in BaseNamed \/ key \in CtrlKeys

WantEv(key, cps) ==
  IF IsChar(cps) THEN (IF cps[1] < 128 THEN KeyEv(key) ELSE Ev("char", "", cps[1], 0, 0))
  ELSE IF IsMetaChar(cps) /\ cps[6] >= 128 THEN Ev("char", "meta ", cps[6], 0, 0)
  ELSE KeyEv(key)
\* "exact": decodes to the key; "degraded": to the key without its modifiers; "lost": anything else
RoundTrip(key, cps, bytes, mode) ==
  LET d == DecodeAll(bytes, FALSE, mode, <<>>) IN
  IF bytes = <<>> \/ d.unspec \/ d.rest # <<>> THEN "lost"
  ELSE IF ProjSeq(d.evs) = <<Proj(WantEv(key, cps))>> THEN "exact"
  ELSE IF key \in DOMAIN ModBase /\ ProjSeq(d.evs) = <<Proj(KeyEv(ModBase[key]))>> THEN "degraded"
  ELSE "lost"
===============================================================================
