------------------------------- MODULE TermKeys -------------------------------
(* X02 state machine: urwid.Terminal between the user's keyboard and the child's pty.       *)
(*                                                                                          *)
(* State: the three modes a child can set that decide what keys send (ckm = DECCKM, lnm =    *)
(* LNM, bp = bracketed paste), the keyboard-grab protocol of the widget (grab = keygrab,     *)
(* lastesc = the previous key press was the escape sequence), alive (child not terminated), *)
(* pend (replies queued by respond(), oldest first).  `last` is a history component: the     *)
(* action just taken with its parameters, the state it started from and its visible result  *)
(* (bytes written to the master fd, value returned to the container).                       *)
(*                                                                                          *)
(* Actions: ChildWrites(tok) (the child's byte stream sets a mode / asks a question),        *)
(* Flush (queued replies are written to the child, feed() does it after every chunk),        *)
(* Press(key) (Terminal.keypress), ChildExits (EOF on the master: terminate(), 'closed').   *)
(* Variant selects deliberately wrong widgets that the invariants must refute.              *)
EXTENDS TermKeysOps

CONSTANTS Keys,          \* key names of length > 1 and one-character keys (as strings from Ascii)
          Esc,           \* the widget's escape_sequence
          MaxPend,
          Variant        \* "ok" | "write_dead" | "esc_leaks" | "release_ignored" | "lnm_ignored" | "ckm_ignored" | "replies_lifo" | "never_flush"

VARIABLES m, grab, lastesc, alive, pend, last
vars == <<m, grab, lastesc, alive, pend, last>>

\* code points of a model key: one-character keys are ASCII
Cps(k) == IF \E i \in 1..95 : Ascii[i] = k THEN <<31 + CHOOSE i \in 1..95 : Ascii[i] = k>> ELSE NoCps
Cur == <<0, 0>>         \* the model keeps the cursor at home (cursor movement is C15's business)

Toks == {[t |-> "sm", q |-> 1, on |-> 1, ps |-> <<1>>], [t |-> "sm", q |-> 1, on |-> 0, ps |-> <<1>>],
         [t |-> "sm", q |-> 0, on |-> 1, ps |-> <<20>>], [t |-> "sm", q |-> 0, on |-> 0, ps |-> <<20>>],
         [t |-> "sm", q |-> 1, on |-> 1, ps |-> <<2004>>], [t |-> "sm", q |-> 1, on |-> 0, ps |-> <<2004>>],
         [t |-> "sm", q |-> 1, on |-> 1, ps |-> <<1, 2004>>],
         [t |-> "sm", q |-> 0, on |-> 1, ps |-> <<1>>],                \* ECMA-48 mode 1 is not DECCKM
         [t |-> "sm", q |-> 1, on |-> 1, ps |-> <<20>>],               \* DEC private 20 is not LNM
         [t |-> "dsr", q |-> 0, on |-> 0, ps |-> <<6>>], [t |-> "dsr", q |-> 0, on |-> 0, ps |-> <<5>>],
         [t |-> "da", q |-> 0, on |-> 0, ps |-> <<>>],
         [t |-> "ris", q |-> 0, on |-> 0, ps |-> <<>>], [t |-> "kpam", q |-> 0, on |-> 0, ps |-> <<>>]}

NoTok == [t |-> "-", q |-> 0, on |-> 0, ps |-> <<>>]
Last(op, key, tok, route, wrote, ret, nalt) ==
  [op |-> op, key |-> key, tok |-> tok, route |-> route, wrote |-> wrote, ret |-> ret, nalt |-> nalt,
   m0 |-> m, grab0 |-> grab, lastesc0 |-> lastesc, alive0 |-> alive, pend0 |-> pend]

Init == /\ m = Modes0 /\ grab = FALSE /\ lastesc = FALSE /\ alive = TRUE /\ pend = <<>>
        /\ last = [op |-> "init", key |-> "", tok |-> NoTok, route |-> "-", wrote |-> <<>>, ret |-> "", nalt |-> 0,
                   m0 |-> Modes0, grab0 |-> FALSE, lastesc0 |-> FALSE, alive0 |-> TRUE, pend0 |-> <<>>]

ChildWrites(tok) ==
  /\ alive
  /\ Len(pend) + Len(TokReplies(tok, Cur)) <= MaxPend
  /\ m' = ApplyTok(m, tok)
  /\ pend' = pend \o TokReplies(tok, Cur)
  /\ last' = Last("feed", "", tok, "-", TokBytes(tok), "", 1)      \* wrote = the bytes the child sent (spec -> code replay feeds them)
  /\ UNCHANGED <<grab, lastesc, alive>>

Rev(s) == [i \in 1..Len(s) |-> s[Len(s) + 1 - i]]
Flush ==
  /\ alive /\ pend # <<>> /\ Variant # "never_flush"
  /\ pend' = <<>>
  /\ last' = Last("flush", "", NoTok, "-", Flat(IF Variant = "replies_lifo" THEN Rev(pend) ELSE pend), "", 1)
  /\ UNCHANGED <<m, grab, lastesc, alive>>

Press(key) ==
  LET st == [alive |-> alive \/ Variant = "write_dead", grab |-> grab, bp |-> m.bp,
             lastesc |-> lastesc /\ ~(Variant = "release_ignored" /\ ~grab)]
      r == Route(st, key, Esc)
      ref == RefBytes(key, Cps(key), m.ckm /\ Variant # "ckm_ignored", m.lnm /\ Variant # "lnm_ignored", "utf8")
  IN /\ grab' = r.grab /\ lastesc' = r.lastesc
     /\ UNCHANGED <<m, alive, pend>>
     /\ IF r.r = "child"
        THEN \E b \in (IF ref = {} THEN {<<>>} ELSE ref) : last' = Last("press", key, NoTok, r.r, b, "", Cardinality(ref))
        ELSE IF r.r \in {"dead", "handdown"} THEN last' = Last("press", key, NoTok, r.r, <<>>, key, 1)
        ELSE last' = Last("press", key, NoTok, r.r,
                          IF Variant = "esc_leaks" /\ r.r = "release" THEN <<CtrlMap[Esc]>> ELSE <<>>, "", 1)

ChildExits ==
  /\ alive
  /\ alive' = FALSE /\ pend' = <<>>          \* replies to a dead child are dropped
  /\ last' = Last("exit", "", NoTok, "-", <<>>, "", 1)
  /\ UNCHANGED <<m, grab, lastesc>>

Next == \/ \E tok \in Toks : ChildWrites(tok)
        \/ Flush
        \/ \E k \in Keys : Press(k)
        \/ ChildExits
Spec == Init /\ [][Next]_vars /\ WF_vars(Flush) /\ WF_vars(Press("a"))
\* behaviours exported for replay on the real widget leave out the one step on which urwid is known to diverge (finding: a full
\* reset keeps bracketed paste on), so that replays are not cut short there; directed histories cover that step
SimNext == \/ \E tok \in Toks : ~(tok.t = "ris" /\ m.bp) /\ ChildWrites(tok)
           \/ Flush
           \/ \E k \in Keys : Press(k)
           \/ ChildExits
SimSpec == Init /\ [][SimNext]_vars

(* ---------------- invariants (over the history component) ---------------- *)
TypeOK == /\ m \in [ckm : BOOLEAN, lnm : BOOLEAN, bp : BOOLEAN] /\ grab \in BOOLEAN /\ lastesc \in BOOLEAN
          /\ alive \in BOOLEAN /\ Len(pend) <= MaxPend
pressed == last.op = "press"
written == last.wrote # <<>>
returned == last.ret = last.key
\* no bytes are written to a dead child (keys, replies)
NoWriteToDead == (last.op \in {"press", "flush"} /\ ~last.alive0) => ~written
DeadReturnsKey == (pressed /\ ~last.alive0) => returned
\* while the keyboard is released nothing reaches the child: the key right after the release is handed down ...
ReleasedHandsDown == (pressed /\ last.alive0 /\ ~last.grab0 /\ last.lastesc0 /\ last.key \notin {Esc, Resize, "page up", "page down"}
                      /\ ~(last.key \in PasteKeys /\ ~last.m0.bp))
                     => (~written /\ returned)
\* ... and afterwards navigation keys keep going to the container until something is typed or the escape sequence is pressed
ReleasedNavigation == (pressed /\ last.alive0 /\ ~last.grab0 /\ last.key \in CommandKeys \ {"enter", Esc, "page up", "page down"})
                      => (~written /\ returned /\ ~grab)
\* every pressed key is written, or returned unhandled, or consumed by a function of the widget: exactly one of the three
ExactlyOne == pressed => (LET w == IF written THEN 1 ELSE 0
                              r == IF returned THEN 1 ELSE 0
                              c == IF last.route \in Consumed THEN 1 ELSE 0
                          IN w + r + c = 1)
\* the escape sequence itself reaches the child only when pressed twice
EscOnlyTwice == (pressed /\ last.key = Esc /\ written) => last.lastesc0
\* whatever is written to the child takes (or keeps) the keyboard
WrittenMeansGrabbed == (pressed /\ written) => grab
\* mode table, stated independently of RefBytes for the two documented modes
EnterByLnm == (pressed /\ last.key = "enter" /\ last.route = "child") => (last.wrote = IF last.m0.lnm THEN <<13, 10>> ELSE <<13>>)
ArrowByCkm == (pressed /\ last.key = "up" /\ last.route = "child") => (last.wrote = IF last.m0.ckm THEN <<27, 79, 65>> ELSE <<27, 91, 65>>)
ModeTable == (pressed /\ last.route = "child" /\ last.nalt > 0)
             => last.wrote \in RefBytes(last.key, Cps(last.key), last.m0.ckm, last.m0.lnm, "utf8")
\* keys never change the child's modes; only the child's own byte stream does
ModesOnlyByChild == last.op \in {"press", "flush", "exit"} => m = last.m0
\* replies are written in the order the questions were asked
RepliesFifo == last.op = "flush" => last.wrote = Flat(last.pend0)
\* a normal-mode key press written to the child decodes (urwid's own decoder) to the key that was pressed
RoundTripNormal == (pressed /\ last.route = "child" /\ Plain(last.key, Cps(last.key)) /\ last.m0 = Modes0 /\ last.nalt > 0)
                   => RoundTrip(last.key, Cps(last.key), last.wrote, "utf8") = "exact"
\* the same in every mode combination: application cursor keys / new-line mode never make a key unreadable for an urwid child
\* ('enter' under LNM decodes as two 'enter' events: documented exception)
RoundTripAnyMode == (pressed /\ last.route = "child" /\ Plain(last.key, Cps(last.key)) /\ last.nalt > 0 /\ ~(last.key = "enter" /\ last.m0.lnm))
                    => RoundTrip(last.key, Cps(last.key), last.wrote, "utf8") = "exact"

(* ---------------- liveness ---------------- *)
\* every queued reply is eventually written, or the child is gone
RepliesDelivered == (pend # <<>>) ~> (pend = <<>>)
\* a released keyboard comes back by typing
KeyboardComesBack == (alive /\ ~grab) ~> (grab \/ ~alive)
===============================================================================
