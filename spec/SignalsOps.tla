----------------------------- MODULE SignalsOps -----------------------------
(* C14: urwid.signals.  Pure operators over the abstract signal state, shared by the     *)
(* state machine (Signals.tla) and the trace specification (SignalsTrace.tla).            *)
(*   conn  : function (sender, name) -> sequence of entries [k, h, r, ua, ws, us]         *)
(*           k  = unique connection key,                                                  *)
(*           <<h, r>> = the CALLBACK: h = the function, r = the object it is bound to      *)
(*                (0 = a plain function, r > 0 = the bound method  receiver_r.h).  A       *)
(*                callback is what Python's == says it is: a function is equal to itself   *)
(*                only; `obj.method` evaluated twice gives two objects that are ONE        *)
(*                callback; the same method of two objects of one class are TWO callbacks  *)
(*                (as are two methods of one object).  WHICH object the caller hands over  *)
(*                (one it kept, one fetched afresh) plays no role.                         *)
(*           ua = the deprecated positional `user_arg` (0 = None = not given; every other  *)
(*                id is some value, true or false, that is not None),                      *)
(*           ws = the weak arguments given at connect time (sequence of weak-arg ids),    *)
(*           us = the user arguments given at connect time (sequence of integers: the     *)
(*                CONTENT of whatever iterable the caller passed, at that moment)         *)
(*           <<h, r, ua, ws, us>> is the DESCRIPTOR of the connection: what disconnect-by- *)
(*           arguments names.  Two descriptors are the same connection arguments iff they *)
(*           are equal as a whole: <<a>> and <<a, b>>, or <<>> and <<a>>, are different.  *)
(*   frame : one emit in progress                                                         *)
(*           [s, n, snap, disc, added, called, rets, i, em]                               *)
(*           snap   = entries connected when the emit started (connection order)          *)
(*           disc   = keys disconnected while the emit was in progress                    *)
(*           added  = keys connected while the emit was in progress                       *)
(*           called = keys invoked by this emit, in order;  rets = their return values    *)
(*           em     = the emitted arguments (trace validation only)                       *)
EXTENDS Integers, Sequences, FiniteSets, TLC

Entry(k, h, r, ua, ws, us) == [k |-> k, h |-> h, r |-> r, ua |-> ua, ws |-> ws, us |-> us]
Desc(e) == <<e.h, e.r, e.ua, e.ws, e.us>>
NoUA == 0                                             \* user_arg = None: no argument is added
UATail(ua) == IF ua = NoUA THEN <<>> ELSE <<ua>>      \* what a connection made with user_arg ua appends to every call
Keys(seq) == {seq[j].k : j \in 1..Len(seq)}
Range(seq) == {seq[j] : j \in 1..Len(seq)}
Filter(seq, Keep(_)) == SelectSeq(seq, Keep)

HasWeak(e, w) == \E i \in 1..Len(e.ws) : e.ws[i] = w
WeakAlive(e, alive) == \A i \in 1..Len(e.ws) : e.ws[i] \in alive
RemoveKey(seq, k) == SelectSeq(seq, LAMBDA e : e.k # k)
RemoveWeak(seq, w) == SelectSeq(seq, LAMBDA e : ~HasWeak(e, w))   \* a connection lives only as long as ALL its weak arguments

\* first entry made with exactly the arguments (callback <<h, r>>, ua, ws, us), as disconnect-by-arguments finds it; 0 if none
FirstMatch(seq, h, r, ua, ws, us) ==
  LET m == SelectSeq(seq, LAMBDA e : e.h = h /\ e.r = r /\ e.ua = ua /\ e.ws = ws /\ e.us = us) IN IF m = <<>> THEN 0 ELSE m[1].k

IsPrefix(a, b) == Len(a) <= Len(b) /\ \A i \in 1..Len(a) : a[i] = b[i]

(* Contract of disconnect-by-arguments: `removed` (0 = nothing) is the key that left the list. *)
DisconnectVerdict(seq, removed, h, r, ua, ws, us) ==
  LET want == FirstMatch(seq, h, r, ua, ws, us)
  IN IF removed = want THEN "-"
     ELSE IF removed = 0 THEN "disconnected_handler_never_called"      \* the named connection stays connected
     ELSE "disconnect_unconnected_does_nothing"                         \* something that was not named went away

(* Contract of the arguments of one call: weak arguments, then the user arguments AS GIVEN AT CONNECT TIME, then the emitted ones, *)
(* then the deprecated user_arg whenever one was given (anything but None: 0, "", False, an empty tuple ... are arguments too).    *)
ArgsVerdict(e, passed_ws, passed_us, passed_tail) ==
  IF passed_ws = e.ws /\ passed_us = e.us /\ passed_tail = UATail(e.ua) THEN "-" ELSE "weak_then_user_then_emit_args"

NewFrame(s, n, seq) == [s |-> s, n |-> n, snap |-> seq, disc |-> {}, added |-> {}, called |-> <<>>, rets |-> <<>>, i |-> 1, em |-> <<>>]

\* every frame on the stack observes a disconnect / connect that happens during it
NoteDisc(stack, ks) == [j \in 1..Len(stack) |-> [stack[j] EXCEPT !.disc = @ \cup ks]]
NoteAdd(stack, k) == [j \in 1..Len(stack) |-> [stack[j] EXCEPT !.added = @ \cup {k}]]

PosIn(seq, x) == IF \E j \in 1..Len(seq) : seq[j] = x THEN CHOOSE j \in 1..Len(seq) : seq[j] = x /\ \A i \in 1..(j - 1) : seq[i] # x ELSE 0
CountIn(seq, x) == Cardinality({j \in 1..Len(seq) : seq[j] = x})
AnyTrue(seq) == \E j \in 1..Len(seq) : seq[j]

(* The contract of one finished emit (property C14):                                       *)
(*  - every handler connected from start to end of the emit is called exactly once,        *)
(*  - those calls happen in connection order,                                              *)
(*  - nothing is called that was not connected at the start or connected during the emit,  *)
(*  - the emit returns whether any handler returned a true value.                          *)
Stayers(f) == {j \in 1..Len(f.snap) : f.snap[j].k \notin f.disc}
ExactlyOnce(f) == \A j \in Stayers(f) : CountIn(f.called, f.snap[j].k) = 1
InOrder(f) == \A j1, j2 \in Stayers(f) : j1 < j2 => PosIn(f.called, f.snap[j1].k) < PosIn(f.called, f.snap[j2].k)
OnlyConnected(f) == \A j \in 1..Len(f.called) : f.called[j] \in Keys(f.snap) \cup f.added
FirstBroken(f, ret) ==
  IF ~ExactlyOnce(f) THEN "each_connected_handler_exactly_once"
  ELSE IF ~InOrder(f) THEN "connection_order"
  ELSE IF ~OnlyConnected(f) THEN "disconnected_handler_never_called"
  ELSE IF ret # AnyTrue(f.rets) THEN "returns_any_true"
  ELSE "-"

(* ---- who keeps whom alive ------------------------------------------------------------- *)
(* A heap is a set of objects, a set of ROOTS (what the application itself still holds) and *)
(* a set E of strong references <<from, to>>.  An object survives reference counting iff it *)
(* lies in the greatest set A containing the roots in which every non-root object has a     *)
(* reference from A (cascading frees remove everything else); it survives the cycle         *)
(* collector iff it is reachable from a root.                                               *)
RECURSIVE ReachFrom(_, _)
ReachFrom(A, E) ==
  LET more == {e[2] : e \in {e \in E : e[1] \in A}} IN IF more \subseteq A THEN A ELSE ReachFrom(A \cup more, E)
RECURSIVE RCSurvivors(_, _, _)
RCSurvivors(A, roots, E) ==
  LET keep == {x \in A : x \in roots \/ \E e \in E : e[2] = x /\ e[1] \in A} IN IF keep = A THEN A ELSE RCSurvivors(keep, roots, E)
\* verdict on object x that the application has just let go of
FreedVerdict(x, objs, roots, E, what) ==
  IF x \in ReachFrom(roots, E) THEN "machinery_keeps_" \o what \o "_alive"
  ELSE IF x \in RCSurvivors(objs \cup roots, roots, E) THEN "machinery_keeps_" \o what \o "_alive_until_cycle_gc"
  ELSE "-"
=============================================================================
