----------------------------- MODULE SignalsOps -----------------------------
(* C14: urwid.signals.  Pure operators over the abstract signal state, shared by the     *)
(* state machine (Signals.tla) and the trace specification (SignalsTrace.tla).            *)
(*   conn  : function (sender, name) -> sequence of entries [k, h, w]                     *)
(*           k = unique connection key, h = handler id, w = weak-argument id or 0         *)
(*   frame : one emit in progress                                                         *)
(*           [s, n, snap, disc, added, called, rets, i]                                   *)
(*           snap   = entries connected when the emit started (connection order)          *)
(*           disc   = keys disconnected while the emit was in progress                    *)
(*           added  = keys connected while the emit was in progress                       *)
(*           called = keys invoked by this emit, in order;  rets = their return values    *)
EXTENDS Integers, Sequences, FiniteSets, TLC

Entry(k, h, w) == [k |-> k, h |-> h, w |-> w]
Keys(seq) == {seq[j].k : j \in 1..Len(seq)}
Filter(seq, Keep(_)) == SelectSeq(seq, Keep)

RemoveKey(seq, k) == SelectSeq(seq, LAMBDA e : e.k # k)
RemoveWeak(seq, w) == SelectSeq(seq, LAMBDA e : e.w # w)

\* first entry matching (h, w), as disconnect-by-arguments finds it; 0 if none
FirstMatch(seq, h, w) ==
  IF \E j \in 1..Len(seq) : seq[j].h = h /\ seq[j].w = w
  THEN seq[CHOOSE j \in 1..Len(seq) : seq[j].h = h /\ seq[j].w = w /\ \A i \in 1..(j - 1) : ~(seq[i].h = h /\ seq[i].w = w)].k
  ELSE 0

NewFrame(s, n, seq) == [s |-> s, n |-> n, snap |-> seq, disc |-> {}, added |-> {}, called |-> <<>>, rets |-> <<>>, i |-> 1]

\* every frame on the stack observes a disconnect / connect that happens during it
NoteDisc(stack, ks) == [j \in 1..Len(stack) |-> [stack[j] EXCEPT !.disc = @ \cup ks]]
NoteAdd(stack, k) == [j \in 1..Len(stack) |-> [stack[j] EXCEPT !.added = @ \cup {k}]]

PosIn(seq, x) == IF \E j \in 1..Len(seq) : seq[j] = x THEN CHOOSE j \in 1..Len(seq) : seq[j] = x /\ \A i \in 1..(j - 1) : seq[i] # x ELSE 0
CountIn(seq, x) == Cardinality({j \in 1..Len(seq) : seq[j] = x})
AnyTrue(seq) == \E j \in 1..Len(seq) : seq[j]

(* The contract of one finished emit (property C14):                                       *)
(*  - every handler connected from start to end of the emit is called exactly once,        *)
(*  - those calls happen in connection order,                                              *)
(*  - nothing is called that was not connected at the start or connected during the emit,  *)
(*  - the emit returns whether any handler returned a true value.                          *)
Stayers(f) == {j \in 1..Len(f.snap) : f.snap[j].k \notin f.disc}
ExactlyOnce(f) == \A j \in Stayers(f) : CountIn(f.called, f.snap[j].k) = 1
InOrder(f) == \A j1, j2 \in Stayers(f) : j1 < j2 => PosIn(f.called, f.snap[j1].k) < PosIn(f.called, f.snap[j2].k)
OnlyConnected(f) == \A j \in 1..Len(f.called) : f.called[j] \in Keys(f.snap) \cup f.added
FirstBroken(f, ret) ==
  IF ~ExactlyOnce(f) THEN "each_connected_handler_exactly_once"
  ELSE IF ~InOrder(f) THEN "connection_order"
  ELSE IF ~OnlyConnected(f) THEN "disconnected_handler_never_called"
  ELSE IF ret # AnyTrue(f.rets) THEN "returns_any_true"
  ELSE "-"
=============================================================================
