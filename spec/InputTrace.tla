------------------------------ MODULE InputTrace ------------------------------
(* C05 trace validation.  One trace = one byte stream in one encoding mode.  Event "whole": *)
(* what the real Screen.parse_input returned for the stream delivered at once (completion    *)
(* timeout fired at the end); judged against the reference decoder.  Event "frag": the same  *)
(* stream delivered in chunks (with the timeout fired after chosen chunks); judged against   *)
(* the whole-stream result when no timeout fired in the middle, and for byte accounting.     *)
EXTENDS InputDecoderOps, Json, IOUtils

Traces == JsonDeserialize(IOEnv.TRACE_FILE)
VARIABLES tid, l, whole, ok, why
vars == <<tid, l, whole, ok, why>>

Init == tid \in 1..Len(Traces) /\ l = 0 /\ whole = <<>> /\ ok = TRUE /\ why = "-"

Verdict(tr, e) ==
  IF e.exc # "" THEN "decoding_never_raises"
  ELSE IF e.stuck THEN "decoding_terminates"
  ELSE IF e.raw # tr.stream THEN "every_byte_consumed_exactly_once_left_to_right"
  ELSE IF e.t = "whole"
       THEN LET ref == DecodeAll(tr.stream, FALSE, tr.mode, <<>>) IN
            IF tr.refcheck /\ ~ref.unspec /\ ProjSeq(e.out) # ProjSeq(ref.evs) THEN "documented_name_and_coordinates"
            ELSE "-"
  ELSE IF ~e.midtimeout /\ ProjSeq(e.out) # ProjSeq(whole) THEN "same_events_however_fragmented"
  ELSE IF e.midtimeout /\ Len(e.out) = 0 /\ Len(tr.stream) > 0 THEN "pending_bytes_decoded_on_timeout"
  ELSE "-"

Step == /\ ok /\ l < Len(Traces[tid].ev) /\ l' = l + 1 /\ tid' = tid
        /\ LET e == Traces[tid].ev[l + 1]
               v == Verdict(Traces[tid], e)
           IN why' = v /\ ok' = (v = "-") /\ whole' = IF e.t = "whole" THEN e.out ELSE whole
Spec == Init /\ [][Step]_vars
Report == ok \/ PrintT(<<"REJECT", tid, l, why>>)
===============================================================================
