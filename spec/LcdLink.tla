------------------------------- MODULE LcdLink -------------------------------
(* X03 state machine: urwid's CF635Screen (host) talking to a CrystalFontz 635 over a       *)
(* serial line.                                                                             *)
(*                                                                                          *)
(* State                                                                                    *)
(*   h        host: command queue, command in flight (infl, -1 = none), unparsed input       *)
(*            (buf), key-repeat timer (kr), what the last draw_screen showed (sb, pc, upd),    *)
(*            cursor style                                                                   *)
(*   h2d      packets written by the host and not yet processed by the device                *)
(*   transit  bytes sent by the device (or noise on the line) not yet read by the host;       *)
(*            owner[i] = index in `emitted` of the packet byte i belongs to (0: noise)         *)
(*   dev      reference CFA-635: character memory, cursor, backlight, ..., got = commands      *)
(*            executed in order                                                              *)
(*   held     buttons physically down;  now  clock in ticks                                   *)
(* History (ghost) components used by the laws only                                          *)
(*   acc      commands accepted by the host (queue_command) in order                          *)
(*   emitted  packets the device put on the line, ok = not hit by WireCorrupts                *)
(*   recv     packets the host's parser recognised                                            *)
(*   hv       the keypad as the host can know it from the recognised reports: buttons down,   *)
(*            and the presses since all buttons were last up (epoch)                          *)
(*   lastev   the latest key event handed to the application [k, t, r (1 = simulated repeat)] *)
(*   appkeys  names of the press events handed to the application (without repeats)           *)
(*   cvi      the last canvas drawn (i = -1: none) and the cursor style then in force;        *)
(*            n budgets;  last = the step taken                                               *)
(*                                                                                          *)
(* Actions: HostQueues(cmd), HostDraws(i), HostSetsStyle(s), DeviceAcks, DevicePress(k),      *)
(* DeviceRelease(k), WireJunk(j), WireCorrupts(i), HostPolls(nb) (nb bytes arrive -- every     *)
(* cut -- and get_input_nonblocking runs), TimePasses(dt).                                   *)
EXTENDS LcdLinkOps

CONSTANTS W, H, MaxData,       \* display size and MAX_PACKET_DATA_LENGTH of the model
          Delay, Nxt,          \* repeat_delay / repeat_next in ticks
          KeyCodes,            \* buttons the user may touch (subset of 1..6)
          CmdIds, CanvasIds, Styles, JunkIds,
          MaxCmd, MaxDraw, MaxStyle, MaxKey, MaxJunk, MaxCor, MaxTime, MaxDt,
          EveryCut,            \* TRUE: the host may read any prefix of what is on the line; FALSE: nothing or everything
          Variant              \* "ok" | "urwid" (documented behaviour except the two known divergences, for replay) | a wrong
                               \* variant the laws must refute: send_without_wait, lifo, ack_drops_next, ack_sends_twice,
                               \* never_send_next, error_is_ack, resync_flush, no_crc, repeat_no_delay, repeat_after_release,
                               \* repeat_while_multi, timeout_none_after_fire, same_key_twice_is_multi, draw_all_rows,
                               \* draw_diff_stale, style_change_ignored

VARIABLES h, h2d, transit, owner, dev, held, now, acc, emitted, recv, hv, lastev, appkeys, cvi, n, last
vars == <<h, h2d, transit, owner, dev, held, now, acc, emitted, recv, hv, lastev, appkeys, cvi, n, last>>

Cfg == [md |-> MaxData, delay |-> Delay, nxt |-> Nxt, keymap |-> DefaultKeyMap,
        same |-> Variant = "urwid", tnone |-> Variant = "urwid", v |-> Variant]

UserCmd(i) == CASE i = 1 -> [c |-> CmdBacklight, d |-> <<50>>]
                [] i = 2 -> [c |-> CmdPing, d |-> <<7>>]
                [] i = 3 -> [c |-> CmdGpo, d |-> <<12, 100>>]
                [] i = 9 -> [c |-> CmdCursorPos, d |-> <<W, 0>>]      \* outside the display: the device answers with an error
                [] OTHER -> [c |-> CmdContrast, d |-> <<i>>]
\* noise: a byte that can be neither type nor length, a header that asks for more bytes than will come, a truncated
\* acknowledgement, a truncated key report, a lone type byte
JunkSeq(j) == CASE j = 1 -> <<255>>
                [] j = 2 -> <<5, 3>>
                [] j = 3 -> <<64 + CmdBacklight, 0>>
                [] j = 4 -> <<KeyActivity, 1, 1>>
                [] OTHER -> <<64>>

NoEv == [k |-> "", t |-> 0, r |-> 0]
Last0 == [op |-> "init", a |-> 0, wrote |-> <<>>, keys |-> <<>>, raw |-> <<>>, timeout |-> -1, fired |-> FALSE,
          prevev |-> NoEv, new |-> <<>>]
Init ==
  /\ h = Host0(4) /\ h2d = <<>> /\ transit = <<>> /\ owner = <<>> /\ dev = Dev0(W, H) /\ held = {} /\ now = 0
  /\ acc = <<>> /\ emitted = <<>> /\ recv = <<>> /\ hv = [held |-> {}, epoch |-> <<>>] /\ lastev = NoEv /\ appkeys = <<>>
  /\ cvi = [i |-> -1, style |-> 0] /\ n = [cmd |-> 0, draw |-> 0, style |-> 0, key |-> 0, junk |-> 0, cor |-> 0]
  /\ last = Last0

\* the device as it will be once every accepted command has been executed
Projected == DevExecAll(Dev0(W, H), acc, 1, W, H)

HostQueues(i) ==
  /\ n.cmd < MaxCmd
  /\ LET cmd == UserCmd(i) IN
     \E st \in {QueueCmd([h |-> h, wrote |-> <<>>], cmd, Variant)} :         \* (a bound variable is evaluated once)
        /\ h' = st.h /\ h2d' = h2d \o st.wrote /\ acc' = Append(acc, cmd)
        /\ last' = [Last0 EXCEPT !.op = "queue", !.a = i, !.wrote = Flat(st.wrote), !.new = <<cmd>>]
  /\ n' = [n EXCEPT !.cmd = @ + 1]
  /\ UNCHANGED <<transit, owner, dev, held, now, emitted, recv, hv, lastev, appkeys, cvi>>

HostDraws(i) ==
  /\ n.draw < MaxDraw
  /\ LET cv == CanvasOf(i, W, H) IN
     \E cmds \in {DrawCmds(h, cv, Variant)} : \E st \in {QueueAll([h |-> h, wrote |-> <<>>], cmds, 1, Variant)} :
        /\ h' = AfterDraw(st.h, cv, Variant) /\ h2d' = h2d \o st.wrote /\ acc' = acc \o cmds
        /\ last' = [Last0 EXCEPT !.op = "draw", !.a = i, !.wrote = Flat(st.wrote), !.new = cmds]
  /\ cvi' = [i |-> i, style |-> h.style] /\ n' = [n EXCEPT !.draw = @ + 1]
  /\ UNCHANGED <<transit, owner, dev, held, now, emitted, recv, hv, lastev, appkeys>>

HostSetsStyle(s) ==
  /\ n.style < MaxStyle
  /\ h' = [h EXCEPT !.style = s, !.upd = TRUE]
  /\ last' = [Last0 EXCEPT !.op = "style", !.a = s]
  /\ n' = [n EXCEPT !.style = @ + 1]
  /\ UNCHANGED <<h2d, transit, owner, dev, held, now, acc, emitted, recv, hv, lastev, appkeys, cvi>>

Emit(reply) ==
  \E pk \in {Packet(reply.c, reply.d)} :
  /\ transit' = transit \o pk
  /\ owner' = owner \o [x \in 1..Len(pk) |-> Len(emitted) + 1]
  /\ emitted' = Append(emitted, [c |-> reply.c, d |-> reply.d, ok |-> TRUE])

DeviceAcks ==
  /\ h2d # <<>>
  /\ \E cmd \in {PktCmd(h2d[1], MaxData)} :
     /\ dev' = DevExec(dev, cmd, W, H)
     /\ Emit(DevReply(cmd, W, H))
     /\ last' = [Last0 EXCEPT !.op = "ack", !.a = cmd.c]
  /\ h2d' = Tail(h2d)
  /\ UNCHANGED <<h, held, now, acc, recv, hv, lastev, appkeys, cvi, n>>

DevicePress(k) ==
  /\ k \notin held /\ n.key < MaxKey
  /\ held' = held \cup {k} /\ n' = [n EXCEPT !.key = @ + 1]
  /\ Emit([c |-> KeyActivity, d |-> <<k>>])
  /\ last' = [Last0 EXCEPT !.op = "press", !.a = k]
  /\ UNCHANGED <<h, h2d, dev, now, acc, recv, hv, lastev, appkeys, cvi>>

DeviceRelease(k) ==
  /\ k \in held
  /\ held' = held \ {k}
  /\ Emit([c |-> KeyActivity, d |-> <<k + 6>>])
  /\ last' = [Last0 EXCEPT !.op = "release", !.a = k]
  /\ UNCHANGED <<h, h2d, dev, now, acc, recv, hv, lastev, appkeys, cvi, n>>

WireJunk(j) ==
  /\ n.junk < MaxJunk
  /\ transit' = transit \o JunkSeq(j) /\ owner' = owner \o [x \in 1..Len(JunkSeq(j)) |-> 0]
  /\ n' = [n EXCEPT !.junk = @ + 1]
  /\ last' = [Last0 EXCEPT !.op = "junk", !.a = j]
  /\ UNCHANGED <<h, h2d, dev, held, now, acc, emitted, recv, hv, lastev, appkeys, cvi>>

WireCorrupts(i) ==
  /\ n.cor < MaxCor /\ i \in 1..Len(transit)
  /\ transit' = [transit EXCEPT ![i] = (@ + 1) % 256]
  /\ emitted' = IF owner[i] > 0 THEN [emitted EXCEPT ![owner[i]].ok = FALSE] ELSE emitted
  /\ n' = [n EXCEPT !.cor = @ + 1]
  /\ last' = [Last0 EXCEPT !.op = "corrupt", !.a = i]
  /\ UNCHANGED <<h, h2d, owner, dev, held, now, acc, recv, hv, lastev, appkeys, cvi>>

\* the keypad as far as the recognised reports tell
HvStep(v, p) ==
  IF p.c = KeyActivity /\ Len(p.d) > 0 /\ p.d[1] \in 1..6
  THEN [held |-> v.held \cup {DefaultKeyMap[p.d[1]]}, epoch |-> Append(v.epoch, DefaultKeyMap[p.d[1]])]
  ELSE IF p.c = KeyActivity /\ Len(p.d) > 0 /\ p.d[1] \in 7..12
  THEN LET hh == v.held \ {DefaultKeyMap[p.d[1] - 6]} IN [held |-> hh, epoch |-> IF hh = {} THEN <<>> ELSE v.epoch]
  ELSE v
RECURSIVE HvAll(_, _, _)
HvAll(v, pkts, i) == IF i > Len(pkts) THEN v ELSE HvAll(HvStep(v, pkts[i]), pkts, i + 1)
IsPress(p) == p.c = KeyActivity /\ Len(p.d) > 0 /\ p.d[1] \in 1..6
PressNames(pkts) == LET ps == SelectSeq(pkts, IsPress) IN [i \in 1..Len(ps) |-> DefaultKeyMap[ps[i].d[1]]]

HostPolls(nb) ==
  /\ nb \in 0..Len(transit)
  /\ \E r \in {PollRef(h, SubSeq(transit, 1, nb), now, Cfg)} :
     LET presses == IF r.fired THEN SubSeq(r.keys, 1, Len(r.keys) - 1) ELSE r.keys
         ev1 == IF presses # <<>> THEN [k |-> presses[Len(presses)], t |-> now, r |-> 0] ELSE lastev
     IN /\ h' = r.h /\ h2d' = h2d \o r.wrote /\ recv' = recv \o r.pkts /\ hv' = HvAll(hv, r.pkts, 1)
        /\ appkeys' = appkeys \o presses
        /\ lastev' = IF r.fired THEN [k |-> r.keys[Len(r.keys)], t |-> now, r |-> 1] ELSE ev1
        /\ last' = [Last0 EXCEPT !.op = "poll", !.a = nb, !.wrote = Flat(r.wrote), !.keys = r.keys, !.raw = r.raw,
                                 !.timeout = r.timeout, !.fired = r.fired, !.prevev = ev1]
  /\ transit' = SubSeq(transit, nb + 1, Len(transit)) /\ owner' = SubSeq(owner, nb + 1, Len(owner))
  /\ UNCHANGED <<dev, held, now, acc, emitted, cvi, n>>

TimePasses(dt) ==
  /\ now + dt <= MaxTime
  /\ now' = now + dt
  /\ last' = [Last0 EXCEPT !.op = "time", !.a = dt]
  /\ UNCHANGED <<h, h2d, transit, owner, dev, held, acc, emitted, recv, hv, lastev, appkeys, cvi, n>>

PollAll == HostPolls(Len(transit))
Next == \/ \E i \in CmdIds : HostQueues(i)
        \/ \E i \in CanvasIds : HostDraws(i)
        \/ \E s \in Styles : HostSetsStyle(s)
        \/ DeviceAcks
        \/ \E k \in KeyCodes : DevicePress(k) \/ DeviceRelease(k)
        \/ \E j \in JunkIds : WireJunk(j)
        \/ \E i \in 1..Len(transit) : WireCorrupts(i)
        \/ \E nb \in (IF EveryCut THEN 0..Len(transit) ELSE {0, Len(transit)}) : HostPolls(nb)
        \/ \E dt \in 1..MaxDt : TimePasses(dt)
Spec == Init /\ [][Next]_vars /\ WF_vars(DeviceAcks) /\ WF_vars(PollAll)

(* ------------------------------- invariants ------------------------------- *)
AckCount(pkts) == Len(SelectSeq(pkts, LAMBDA p : IsAck(p.c)))
Intact == LET g == SelectSeq(emitted, LAMBDA p : p.ok) IN [i \in 1..Len(g) |-> [c |-> g[i].c, d |-> g[i].d]]
Quiet == h.queue = <<>> /\ h.infl = NoCmd /\ h2d = <<>>

TypeOK == /\ h.infl \in {NoCmd} \cup 0..63 /\ Len(owner) = Len(transit) /\ now \in 0..MaxTime
          /\ \A i \in 1..Len(transit) : transit[i] \in 0..255
\* every packet the host writes is well formed (type, length, data, CRC of the data sheet)
PacketsWellFormed == \A i \in 1..Len(h2d) : PktCmd(h2d[i], MaxData).c # -1
\* at most one command is outstanding: written by the host, acknowledgement not yet seen by the host
Sent == Len(dev.got) + Len(h2d)
OneInFlight == /\ Sent - AckCount(recv) \in {0, 1}
               /\ (h.infl = NoCmd) <=> (Sent = AckCount(recv))
               /\ Len(h2d) <= 1
\* commands reach the device in the order they were accepted, each exactly once: nothing lost, nothing duplicated
InOrderExactlyOnce == acc = dev.got \o PktCmds(h2d, MaxData) \o h.queue
\* nothing waits in the queue while the line is idle
NoIdleWaiting == h.infl = NoCmd => h.queue = <<>>
\* resynchronisation: the parser hands over exactly the intact packets, in order, skipping none ...
ResyncNoLoss == IsPrefix(recv, Intact)
\* ... holds back fewer bytes than the longest packet ...
HeldBackBound == Len(h.buf) < MaxData + 4
\* ... and has recognised every intact packet once the line is drained and nothing is held back
DrainedComplete == (transit = <<>> /\ h.buf = <<>>) => recv = Intact
\* key reports become the documented key names, in arrival order
KeysInOrder == appkeys = PressNames(recv)
\* simulated repeats: only for a single held key that was alone since all keys were up, none after its release ...
polled == last.op = "poll"
rk == last.keys[Len(last.keys)]
Need(ev) == IF ev.r = 1 THEN Nxt ELSE Delay
Single == Cardinality(hv.held) = 1 /\ Range(hv.epoch) = hv.held
RepeatOnlySingleHeld == (polled /\ last.fired) => (hv.held = {rk} /\ Range(hv.epoch) = {rk})
\* ... the first one repeat_delay after the press, then every repeat_next ...
RepeatSpacing == (polled /\ last.fired) => (last.prevev.k = rk /\ now - last.prevev.t >= Need(last.prevev))
\* ... and none is overdue when get_input_nonblocking returns
RepeatPrompt == polled => ~(Single /\ now - lastev.t >= Need(lastev))
\* the returned timeout is the time to the next simulated event (None when no event is pending)
TimeoutIsNextRepeat == polled => last.timeout = (IF Single THEN Need(lastev) - (now - lastev.t) ELSE -1)
\* once every command is acknowledged the device shows the last canvas drawn, cursor included
ScreenConverges == (Quiet /\ cvi.i >= 0) => (ShowsText(dev, CanvasOf(cvi.i, W, H)) /\ ShowsCursor(dev, CanvasOf(cvi.i, W, H), cvi.style))
\* draw_screen sends no row the device already shows
NoRedundantRows == [][last'.op = "draw" => \A i \in 1..Len(last'.new) : ~RedundantRow(Projected, last'.new[i])]_vars
\* a quiet line means the device is exactly where the accepted commands lead
QuietMeansApplied == Quiet => dev = Projected

(* -------------------------------- liveness -------------------------------- *)
\* (fault-free configurations) every queued command is eventually sent and acknowledged
QueueDrains == (h.queue # <<>>) ~> (h.queue = <<>>)
EventuallyQuiet == (h.infl # NoCmd) ~> Quiet
===============================================================================
