----------------------------- MODULE ScrollableOps -----------------------------
(* C20: contract of urwid.Scrollable / ScrollBar.                                            *)
(* The wrapped widget's full rendering is `total` rows, numbered 0..total-1; a view of        *)
(* height h shows a sequence of row numbers (-1 = blank row).                                 *)
EXTENDS Integers, Sequences, TLC

Min2(a, b) == IF a < b THEN a ELSE b
Max2(a, b) == IF a > b THEN a ELSE b
MaxPos(total, h) == Max2(0, total - h)
Clamp(p, total, h) == Max2(0, Min2(MaxPos(total, h), p))

\* the view a Scrollable must show at position p
View(p, total, h) == [i \in 1..h |-> IF p + i - 1 < total THEN p + i - 1 ELSE -1]

\* documented resolution of a stored position: negative = counted from the bottom
Resolve(stored, total, h) == Clamp(IF stored < 0 THEN total - h + stored + 1 ELSE stored, total, h)

\* documented navigation: a line, a page (view height minus one row of context), the two ends
Nav(p, key, total, h) ==
  Clamp(CASE key = "up" -> p - 1 [] key = "down" -> p + 1
          [] key = "page up" -> p - (h - 1) [] key = "page down" -> p + (h - 1)
          [] key = "home" -> 0 [] key = "end" -> MaxPos(total, h) [] OTHER -> p, total, h)
ScrollKeys == {"up", "down", "page up", "page down", "home", "end"}

\* The position a rendering shows: the stored position resolved against the content and the view of THIS rendering,
\* then the key pressed since the last rendering (if any).  A key is used up by the rendering that follows it, whether
\* or not there was anything to scroll: with pend = "" a resize / content change can only clamp.
Shown(stored, pend, total, h) ==
  LET p0 == Resolve(stored, total, h) IN IF pend = "" THEN p0 ELSE Nav(p0, pend, total, h)

\* set_scrollpos stores any integer ("adjusted during rendering"): when a key is pressed on top of a stored position that
\* is out of range and not yet rendered, the contract does not say whether the adjustment or the key comes first - the
\* implementation may move from the raw position and clamp afterwards.  Both orders agree whenever the stored position is
\* in range (checked on the model: Scrollable!OrdersAgreeInRange).
Raw(stored, total, h) == IF stored < 0 THEN total - h + stored + 1 ELSE stored
ShownLate(stored, pend, total, h) ==
  LET r == Raw(stored, total, h) IN IF pend = "" THEN Clamp(r, total, h) ELSE Nav(r, pend, total, h)
ShownOK(p, stored, pend, total, h) == p = Shown(stored, pend, total, h) \/ p = ShownLate(stored, pend, total, h)

\* wheel events not handled by the wrapped widget move the displayed position by one row (ScrollBar only)
WheelPos(p, dir) == IF dir = "up" THEN Max2(p - 1, 0) ELSE p + 1

(* ---- scrollbar geometry: top trough, thumb, bottom trough ---- *)
BarDrawnOK(drawn, total, h) == drawn <=> (total > h)
PartsOK(top, thumb, bottom, h) == top >= 0 /\ thumb >= 1 /\ bottom >= 0 /\ top + thumb + bottom = h
\* the thumb leaves the top exactly when the first row is scrolled out of view (when there is room to leave)
ThumbTopOK(top, thumb, p, h) == (h > thumb) => ((top > 0) <=> (p > 0))

\* the width handed to the wrapped widget - for rendering, keys and mouse events alike: the bar takes its columns
\* exactly while it is drawn
ChildWidth(drawn, w, barw) == IF drawn THEN w - barw ELSE w

\* a reference geometry used to show the contract is satisfiable for every (total, h, p)
RefThumb(total, h) == Max2(1, Min2(h - (IF h > 1 THEN 1 ELSE 0), (h * h) \div total))
RefTop(total, h, p) ==
  LET room == h - RefThumb(total, h)
      raw == (room * p) \div Max2(1, MaxPos(total, h))
  IN IF p = 0 THEN 0 ELSE Min2(room, Max2(IF room > 0 THEN 1 ELSE 0, raw))
================================================================================
