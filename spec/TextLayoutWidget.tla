--------------------------- MODULE TextLayoutWidget ---------------------------
(* C03 design model of a Text widget that lives: "the row count reported for a width equals the   *)
(* number of lines rendered at that width" and "for every wrap mode and alignment" must hold after *)
(* ANY history of mutators and queries, although the widget answers from two memories:            *)
(*   canv[w]  the canvas rendered at width w that is still referenced somewhere (screen, parent   *)
(*            canvas) and therefore still in the canvas cache; render((w,)) hands it out again    *)
(*            and rows((w,)) counts its rows;                                                      *)
(*   tr       the one layout translation kept for the width asked last (pack, rows without a      *)
(*            canvas, and a fresh render use it).                                                 *)
(* A memory is abstracted to the widget state (alignment, wrap mode, text) it was computed from.   *)
(* Safety: every answer is computed from the state in force.  The design that meets it: every      *)
(* mutator forgets the translation AND invalidates the canvases.  Three wrong designs are refuted  *)
(* (Variant): set_layout that only forgets the translation, a setter that keeps the translation,  *)
(* set_text that keeps the canvases.  TextLayoutTrace.tla checks the real widget against the same  *)
(* state machine (TextLayoutOps.WidgetApply).                                                     *)
EXTENDS Integers, FiniteSets, TLC

CONSTANTS Widths, Variant
Aligns == {"left", "right"}
Wraps == {"space", "clip"}
Texts == {"t1", "t2"}
None == [align |-> "-", wrap |-> "-", text |-> "-"]

VARIABLES st, canv, tr, ans
vars == <<st, canv, tr, ans>>

States == [align : Aligns, wrap : Wraps, text : Texts]
TypeOK == /\ st \in States /\ canv \in [Widths -> States \cup {None}]
          /\ tr \in [w : Widths \cup {0}, of : States \cup {None}]
          /\ ans \in [q : {"-", "rows", "pack", "render"}, of : States \cup {None}]

Init == /\ st \in States /\ canv = [w \in Widths |-> None] /\ tr = [w |-> 0, of |-> None] /\ ans = [q |-> "-", of |-> None]

NoCanvases == [w \in Widths |-> None]
NoTranslation == [w |-> 0, of |-> None]

Mutate(new, keepCanvases, keepTranslation) ==
  /\ st' = new
  /\ canv' = IF keepCanvases THEN canv ELSE NoCanvases
  /\ tr' = IF keepTranslation THEN tr ELSE NoTranslation
  /\ ans' = [q |-> "-", of |-> None]

SetLayout(a, wr) == Mutate([st EXCEPT !.align = a, !.wrap = wr], Variant = "layout_keeps_canvases", FALSE)
SetAlign(a) == Mutate([st EXCEPT !.align = a], FALSE, Variant = "setter_keeps_translation")
SetWrap(wr) == Mutate([st EXCEPT !.wrap = wr], FALSE, Variant = "setter_keeps_translation")
SetText(t) == Mutate([st EXCEPT !.text = t], Variant = "text_keeps_canvases", FALSE)

\* the translation for width w: the kept one when it was made for w, else a new one from the state in force
TrFor(w) == IF tr.w = w THEN tr ELSE [w |-> w, of |-> st]

Render(w) == /\ IF canv[w] # None THEN /\ ans' = [q |-> "render", of |-> canv[w]] /\ UNCHANGED <<canv, tr>>
                ELSE /\ tr' = TrFor(w) /\ canv' = [canv EXCEPT ![w] = TrFor(w).of] /\ ans' = [q |-> "render", of |-> TrFor(w).of]
             /\ UNCHANGED st
Rows(w) == /\ IF canv[w] # None THEN /\ ans' = [q |-> "rows", of |-> canv[w]] /\ UNCHANGED tr
              ELSE /\ tr' = TrFor(w) /\ ans' = [q |-> "rows", of |-> TrFor(w).of]
           /\ UNCHANGED <<st, canv>>
Pack(w) == tr' = TrFor(w) /\ ans' = [q |-> "pack", of |-> TrFor(w).of] /\ UNCHANGED <<st, canv>>
\* the last reference to the canvas of width w goes away
Drop(w) == canv[w] # None /\ canv' = [canv EXCEPT ![w] = None] /\ UNCHANGED <<st, tr, ans>>

Next == \/ \E a \in Aligns, wr \in Wraps : SetLayout(a, wr)
        \/ \E a \in Aligns : SetAlign(a)
        \/ \E wr \in Wraps : SetWrap(wr)
        \/ \E t \in Texts : SetText(t)
        \/ \E w \in Widths : Render(w) \/ Rows(w) \/ Pack(w) \/ Drop(w)
Spec == Init /\ [][Next]_vars

AnswersBelongToStateInForce == ans.q # "-" => ans.of = st
\* what makes it hold: no memory survives a mutator
MemoriesAreCurrent == /\ \A w \in Widths : canv[w] \in {None, st}
                      /\ tr.of \in {None, st}
=============================================================================
