-------------------------------- MODULE EditOps --------------------------------
(* C10: the reference editor.  Text = sequence of character ids (the editable part only);    *)
(* pos = cursor offset 0..Len(text); caplen = length of the caption in front of it.           *)
(* The display is given as `stops`: for every display row the sequence of cursor stops        *)
(* <<p, col, w>> (p = offset into caption+text of the character shown at column col with      *)
(* width w; the last stop of a row is the end-of-row stop with w = 0).  In trace validation   *)
(* the stops come from the layout the implementation itself reports (checked by C03); in      *)
(* the model they come from a simple fixed-width wrap.                                        *)
EXTENDS Integers, Sequences, FiniteSets, TLC

Min2(a, b) == IF a < b THEN a ELSE b
Max2(a, b) == IF a > b THEN a ELSE b
InsertAt(s, i, x) == SubSeq(s, 1, i) \o x \o SubSeq(s, i + 1, Len(s))        \* insert x before offset i
DeleteAt(s, i) == SubSeq(s, 1, i) \o SubSeq(s, i + 2, Len(s))                 \* delete the character at offset i

\* the stop on row `row` (1-based) chosen for column x: the stop whose cell contains x, the end-of-row stop when x
\* lies beyond the text, the first stop when x lies before it.  x = -1 means 'left', -2 means 'right'.
StopFor(row, x) ==
  LET n == Len(row) IN
  IF x = -1 THEN row[1]
  ELSE IF x = -2 THEN row[n]
  ELSE IF \E i \in 1..n : row[i][2] <= x /\ x < row[i][2] + Max2(row[i][3], 1) /\ row[i][3] > 0
       THEN row[CHOOSE i \in 1..n : row[i][2] <= x /\ x < row[i][2] + row[i][3] /\ row[i][3] > 0]
  ELSE IF x < row[1][2] THEN row[1]
  ELSE row[n]

RowHasPos(row, p) == \E i \in 1..Len(row) : row[i][1] = p

\* Reference step.  st = [text, pos, pref] (pref = remembered preferred column or -9 for none);
\* cur = <<x, y>> cursor cell before the key (0-based), stops as above, caplen.
\* Returns [text, pos, pref, handled].  An edit attempt (backspace / delete) forgets the preferred column even when there
\* is nothing to delete: the property does not say what the preferred column is after a refused key, the code forgets it.
Ref(st, key, cur, stops, caplen, opt) ==
  LET text == st.text  pos == st.pos  n == Len(text)
      y == cur[2] + 1
      prefx == IF st.pref = -9 THEN cur[1] ELSE st.pref
      Keep(h) == [text |-> text, pos |-> pos, pref |-> st.pref, handled |-> h, exact |-> TRUE, row |-> 0]
      MoveTo(p, pf) == [text |-> text, pos |-> Min2(Max2(p - caplen, 0), n), pref |-> pf, handled |-> TRUE, exact |-> TRUE, row |-> 0]
      \* a column that is not inside a character's cell on the target row: the property does not say which offset
      \* of that row the cursor takes (only exact = FALSE, row = target row are reported)
      OnChar(rw, x) == x < 0 \/ \E i \in 1..Len(rw) : rw[i][3] > 0 /\ rw[i][2] <= x /\ x < rw[i][2] + rw[i][3]
      MoveCol(r, x) == [MoveTo(StopFor(stops[r], x)[1], x) EXCEPT !.exact = OnChar(stops[r], x), !.row = r]
  IN CASE key.k = "char" ->
            [text |-> InsertAt(text, pos, <<key.c>>), pos |-> pos + 1, pref |-> -9, handled |-> TRUE, exact |-> TRUE, row |-> 0]
       [] key.k = "enter" -> IF opt.multiline THEN [text |-> InsertAt(text, pos, <<10>>), pos |-> pos + 1, pref |-> -9, handled |-> TRUE, exact |-> TRUE, row |-> 0] ELSE Keep(FALSE)
       [] key.k = "tab" -> IF opt.allow_tab
                           THEN LET k == 8 - (pos % 8) IN [text |-> InsertAt(text, pos, [i \in 1..k |-> 32]), pos |-> pos + k, pref |-> -9, handled |-> TRUE, exact |-> TRUE, row |-> 0]
                           ELSE Keep(FALSE)
       [] key.k = "left" -> IF pos = 0 THEN Keep(FALSE) ELSE [text |-> text, pos |-> pos - 1, pref |-> -9, handled |-> TRUE, exact |-> TRUE, row |-> 0]
       [] key.k = "right" -> IF pos >= n THEN Keep(FALSE) ELSE [text |-> text, pos |-> pos + 1, pref |-> -9, handled |-> TRUE, exact |-> TRUE, row |-> 0]
       [] key.k = "backspace" -> IF pos = 0 THEN [Keep(FALSE) EXCEPT !.pref = -9] ELSE [text |-> DeleteAt(text, pos - 1), pos |-> pos - 1, pref |-> -9, handled |-> TRUE, exact |-> TRUE, row |-> 0]
       [] key.k = "delete" -> IF pos >= n THEN [Keep(FALSE) EXCEPT !.pref = -9] ELSE [text |-> DeleteAt(text, pos), pos |-> pos, pref |-> -9, handled |-> TRUE, exact |-> TRUE, row |-> 0]
       [] key.k = "home" -> MoveTo(StopFor(stops[y], -1)[1], -1)
       [] key.k = "end" -> MoveTo(StopFor(stops[y], -2)[1], -2)
       [] key.k = "up" -> IF y - 1 < 1 \/ ~(\E i \in 1..Len(stops[y - 1]) : stops[y - 1][i][1] >= caplen) THEN Keep(FALSE)
                          ELSE MoveCol(y - 1, prefx)
       [] key.k = "down" -> IF y + 1 > Len(stops) THEN Keep(FALSE) ELSE MoveCol(y + 1, prefx)
       [] key.k = "click" -> IF key.y + 1 > Len(stops) \/ key.y < 0 \/ ~(\E i \in 1..Len(stops[key.y + 1]) : stops[key.y + 1][i][1] >= caplen)
                             THEN Keep(FALSE) ELSE MoveCol(key.y + 1, key.x)
       [] OTHER -> Keep(FALSE)

\* fixed-width 'any' wrap of caption+text for the model: every character one column wide, newline ends a row
RECURSIVE WrapRows(_, _, _, _, _)
WrapRows(full, i, w, row, acc) ==
  IF i > Len(full) THEN Append(acc, Append(row, <<i - 1, Len(row), 0>>))
  ELSE IF full[i] = 10 THEN WrapRows(full, i + 1, w, <<>>, Append(acc, Append(row, <<i - 1, Len(row), 0>>)))
  ELSE IF Len(row) = w THEN WrapRows(full, i, w, <<>>, Append(acc, Append(row, <<i - 1, w, 0>>)))
  ELSE WrapRows(full, i + 1, w, Append(row, <<i - 1, Len(row), 1>>), acc)
ModelStops(caption, text, w) == WrapRows(caption \o text, 1, w, <<>>, <<>>)

\* the cell where the cursor is drawn for offset p: the first row holding a non-end stop for p, else the row whose end stop is p
CursorOf(stops, p) ==
  LET cand == {c \in (1..Len(stops)) \X (1..40) : c[2] <= Len(stops[c[1]]) /\ stops[c[1]][c[2]][1] = p}
      real == {c \in cand : stops[c[1]][c[2]][3] > 0}
      pool == IF real # {} THEN real ELSE cand
      Before(c, d) == c[1] < d[1] \/ (c[1] = d[1] /\ c[2] <= d[2])
      best == CHOOSE c \in pool : \A d \in pool : Before(c, d)
  IN <<stops[best[1]][best[2]][2], best[1] - 1>>
================================================================================
