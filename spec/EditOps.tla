-------------------------------- MODULE EditOps --------------------------------
(* C10: the reference editor.  Text = sequence of character ids (the editable part only);    *)
(* pos = cursor offset 0..Len(text); caplen = length of the caption in front of it.           *)
(* The display is given as `stops`: for every display row the sequence of cursor stops        *)
(* <<p, col, w>> (p = offset into caption+text of the character shown at column col with      *)
(* width w; the last stop of a row is the end-of-row stop with w = 0; a zero-width character   *)
(* is a stop <<p, col, 0, 1>>, see IsMark).  In trace validation   *)
(* the stops come from the layout the implementation itself reports (checked by C03); in      *)
(* the model they come from a simple fixed-width wrap.                                        *)
EXTENDS Integers, Sequences, FiniteSets, TLC

Min2(a, b) == IF a < b THEN a ELSE b
Max2(a, b) == IF a > b THEN a ELSE b
InsertAt(s, i, x) == SubSeq(s, 1, i) \o x \o SubSeq(s, i + 1, Len(s))        \* insert x before offset i
DeleteAt(s, i) == SubSeq(s, 1, i) \o SubSeq(s, i + 2, Len(s))                 \* delete the character at offset i

\* the stop on row `row` (1-based) chosen for column x: the stop whose cell contains x, the end-of-row stop when x
\* lies beyond the text, the first stop when x lies before it.  x = -1 means 'left', -2 means 'right'.
\* A zero-width (combining) character is drawn into the cell of the character in front of it: its stop <<p, col, 0, 1>> (fourth component 1)
\* stands in the middle of a row, has no cell, and no column designates it.  The end of a row is its end-of-row stop, or - a soft-wrapped
\* row has none - its last character that has a cell.
IsMark(s) == Len(s) > 3 /\ s[4] = 1
EndIdx(row) == LET c == {i \in 1..Len(row) : ~IsMark(row[i])} IN IF c = {} THEN Len(row) ELSE CHOOSE i \in c : \A j \in c : j <= i
StopFor(row, x) ==
  LET n == EndIdx(row) IN
  IF x = -1 THEN row[1]
  ELSE IF x = -2 THEN row[n]
  ELSE IF \E i \in 1..Len(row) : row[i][2] <= x /\ x < row[i][2] + row[i][3] /\ row[i][3] > 0
       THEN row[CHOOSE i \in 1..Len(row) : row[i][2] <= x /\ x < row[i][2] + row[i][3] /\ row[i][3] > 0]
  ELSE IF x < row[1][2] THEN row[1]
  ELSE row[n]

RowHasPos(row, p) == \E i \in 1..Len(row) : row[i][1] = p

\* Reference step.  st = [text, pos, pref] (pref = remembered preferred column or -9 for none);
\* cur = <<x, y>> cursor cell before the key (0-based), stops as above, caplen.
\* Returns [text, pos, pref, handled].  An edit attempt (backspace / delete) forgets the preferred column even when there
\* is nothing to delete: the property does not say what the preferred column is after a refused key, the code forgets it.
Ref(st, key, cur, stops, caplen, opt) ==
  LET text == st.text  pos == st.pos  n == Len(text)
      y == cur[2] + 1
      prefx == IF st.pref = -9 THEN cur[1] ELSE st.pref
      Keep(h) == [text |-> text, pos |-> pos, pref |-> st.pref, handled |-> h, exact |-> TRUE, row |-> 0]
      MoveTo(p, pf) == [text |-> text, pos |-> Min2(Max2(p - caplen, 0), n), pref |-> pf, handled |-> TRUE, exact |-> TRUE, row |-> 0]
      \* a column that is not inside a character's cell on the target row: the property does not say which offset
      \* of that row the cursor takes (only exact = FALSE, row = target row are reported)
      OnChar(rw, x) == x < 0 \/ \E i \in 1..Len(rw) : rw[i][3] > 0 /\ rw[i][2] <= x /\ x < rw[i][2] + rw[i][3]
      MoveCol(r, x) == [MoveTo(StopFor(stops[r], x)[1], x) EXCEPT !.exact = OnChar(stops[r], x), !.row = r]
  IN CASE key.k = "char" ->
            [text |-> InsertAt(text, pos, <<key.c>>), pos |-> pos + 1, pref |-> -9, handled |-> TRUE, exact |-> TRUE, row |-> 0]
       [] key.k = "enter" -> IF opt.multiline THEN [text |-> InsertAt(text, pos, <<10>>), pos |-> pos + 1, pref |-> -9, handled |-> TRUE, exact |-> TRUE, row |-> 0] ELSE Keep(FALSE)
       [] key.k = "tab" -> IF opt.allow_tab
                           THEN LET k == 8 - (pos % 8) IN [text |-> InsertAt(text, pos, [i \in 1..k |-> 32]), pos |-> pos + k, pref |-> -9, handled |-> TRUE, exact |-> TRUE, row |-> 0]
                           ELSE Keep(FALSE)
       [] key.k = "left" -> IF pos = 0 THEN Keep(FALSE) ELSE [text |-> text, pos |-> pos - 1, pref |-> -9, handled |-> TRUE, exact |-> TRUE, row |-> 0]
       [] key.k = "right" -> IF pos >= n THEN Keep(FALSE) ELSE [text |-> text, pos |-> pos + 1, pref |-> -9, handled |-> TRUE, exact |-> TRUE, row |-> 0]
       [] key.k = "backspace" -> IF pos = 0 THEN [Keep(FALSE) EXCEPT !.pref = -9] ELSE [text |-> DeleteAt(text, pos - 1), pos |-> pos - 1, pref |-> -9, handled |-> TRUE, exact |-> TRUE, row |-> 0]
       [] key.k = "delete" -> IF pos >= n THEN [Keep(FALSE) EXCEPT !.pref = -9] ELSE [text |-> DeleteAt(text, pos), pos |-> pos, pref |-> -9, handled |-> TRUE, exact |-> TRUE, row |-> 0]
       [] key.k = "home" -> MoveTo(StopFor(stops[y], -1)[1], -1)
       [] key.k = "end" -> MoveTo(StopFor(stops[y], -2)[1], -2)
       [] key.k = "up" -> IF y - 1 < 1 \/ ~(\E i \in 1..Len(stops[y - 1]) : stops[y - 1][i][1] >= caplen) THEN Keep(FALSE)
                          ELSE MoveCol(y - 1, prefx)
       [] key.k = "down" -> IF y + 1 > Len(stops) THEN Keep(FALSE) ELSE MoveCol(y + 1, prefx)
       [] key.k = "click" -> IF key.y + 1 > Len(stops) \/ key.y < 0 \/ ~(\E i \in 1..Len(stops[key.y + 1]) : stops[key.y + 1][i][1] >= caplen)
                             THEN Keep(FALSE) ELSE MoveCol(key.y + 1, key.x)
       [] OTHER -> Keep(FALSE)

\* fixed-width 'any' wrap of caption+text for the model: every character one column wide, newline ends a row
RECURSIVE WrapRows(_, _, _, _, _)
WrapRows(full, i, w, row, acc) ==
  IF i > Len(full) THEN Append(acc, Append(row, <<i - 1, Len(row), 0>>))
  ELSE IF full[i] = 10 THEN WrapRows(full, i + 1, w, <<>>, Append(acc, Append(row, <<i - 1, Len(row), 0>>)))
  ELSE IF Len(row) = w THEN WrapRows(full, i, w, <<>>, Append(acc, Append(row, <<i - 1, w, 0>>)))
  ELSE WrapRows(full, i + 1, w, Append(row, <<i - 1, Len(row), 1>>), acc)
ModelStops(caption, text, w) == WrapRows(caption \o text, 1, w, <<>>, <<>>)

\* ---- the display of the model: alignment and the view shifted to the cursor ------------------------------------------------------
\* A row narrower than the widget is moved right by its alignment padding (any split of the spare columns is a centring; the model
\* uses the larger half on the left); a clipped row wider than the widget is moved left the same way (negative padding).  The focused widget shows the cursor row shifted by the least amount that brings the cursor
\* cell into the widget: left when the cursor stands behind a row that fills the widget, right when it stands left of column 0.
ShiftRow(row, d) == IF d = 0 THEN row ELSE TLCEval([i \in 1..Len(row) |-> <<row[i][1], row[i][2] + d, row[i][3]>>])
RowWidth(row) == row[Len(row)][2] - row[1][2]
AlignPad(row, w, align) == LET spare == w - RowWidth(row)
                           IN IF align = "left" THEN 0 ELSE IF align = "right" THEN spare ELSE (spare + 1) \div 2
AlignStops(stops, w, align) == IF align = "left" THEN stops ELSE TLCEval([r \in 1..Len(stops) |-> ShiftRow(stops[r], AlignPad(stops[r], w, align))])
\* (row, index) of the stop that shows offset p: the first non-end stop, else the first end stop
StopOf(stops, p) ==
  LET cand == UNION {{<<r, i>> : i \in {j \in 1..Len(stops[r]) : stops[r][j][1] = p}} : r \in 1..Len(stops)}
      real == {c \in cand : stops[c[1]][c[2]][3] > 0}
      pool == IF real # {} THEN real ELSE cand
      Before(c, d) == c[1] < d[1] \/ (c[1] = d[1] /\ c[2] <= d[2])
  IN CHOOSE c \in pool : \A d \in pool : Before(c, d)
\* variant "shift" is the contract; "noshift" (the view never follows the cursor) and "keepOnCancel" (a shift that cancels the
\* alignment padding exactly is dropped) are wrong designs the model must refute
ViewStops(stops, p, w, variant) ==
  LET c == StopOf(stops, p)  row == stops[c[1]]  x == row[c[2]][2]
      d == IF x >= w THEN -(x - w + 1) ELSE IF x < 0 THEN -x ELSE 0
      pad == row[1][2]
      dd == IF variant = "noshift" THEN 0 ELSE IF variant = "keepOnCancel" /\ pad # 0 /\ pad + d = 0 THEN 0 ELSE d
  IN IF dd = 0 THEN stops ELSE TLCEval([stops EXCEPT ![c[1]] = ShiftRow(row, dd)])
\* the cursor clauses, the same for every alignment and wrap mode: the cursor cell lies inside the widget ...
CursorInside(cur, w, nrows) == cur[1] >= 0 /\ cur[1] < w /\ cur[2] >= 0 /\ cur[2] < nrows
\* ... and is the cell of the stop that shows offset p
CursorOnStop(cur, stops, p) == cur[2] + 1 \in 1..Len(stops) /\ \E i \in 1..Len(stops[cur[2] + 1]) : stops[cur[2] + 1][i][1] = p /\ stops[cur[2] + 1][i][2] = cur[1]

\* ---- the integer variant -------------------------------------------------------------------------------------------------------
\* IntEdit is the reference editor restricted to decimal digits; after every key it uses (not after a click), the zeros in front of the number that stand
\* left of the cursor are dropped and the cursor keeps designating the same remaining digit (zeros at or behind the cursor stay: the
\* documented example 5002, home, delete shows '002').  A dropped zero is a text change: the preferred column is forgotten.
IsDigit(c) == c >= 48 /\ c <= 57
LeadingZeros(text) == Cardinality({k \in 1..Len(text) : \A j \in 1..k : text[j] = 48})
TrimZeros(text, pos) == LET d == Min2(LeadingZeros(text), pos) IN [text |-> SubSeq(text, d + 1, Len(text)), pos |-> pos - d, dropped |-> d]
\* variant "trim" is the contract; "clampFirst" is a wrong design: the text is shortened first, a cursor behind the new end is pulled back
\* by the shortening AND moved left once more
RECURSIVE TrimClampFirst(_, _)
TrimClampFirst(t, p) == IF p > 0 /\ t # <<>> /\ t[1] = 48 THEN TrimClampFirst(Tail(t), Max2(Min2(p, Len(t) - 1) - 1, 0)) ELSE [text |-> t, pos |-> p]
TrimZerosV(text, pos, variant) ==
  IF variant # "clampFirst" THEN TrimZeros(text, pos)
  ELSE LET t == TrimClampFirst(text, pos) IN [text |-> t.text, pos |-> t.pos, dropped |-> Len(text) - Len(t.text)]
RefInt(st, key, cur, stops, caplen, opt, variant) ==
  IF key.k = "char" /\ ~IsDigit(key.c)
  THEN [text |-> st.text, pos |-> st.pos, pref |-> st.pref, handled |-> FALSE, exact |-> TRUE, row |-> 0]
  ELSE LET r == Ref(st, key, cur, stops, caplen, opt) IN
       IF ~r.handled \/ key.k = "click" THEN r          \* the mouse only moves the cursor: zeros are dropped by keys
       ELSE LET t == TrimZerosV(r.text, r.pos, variant)
            IN [r EXCEPT !.text = t.text, !.pos = t.pos, !.pref = IF t.dropped > 0 THEN -9 ELSE r.pref]

\* the cell where the cursor is drawn for offset p: the first row holding a non-end stop for p, else the row whose end stop is p
CursorOf(stops, p) == LET c == StopOf(stops, p) IN <<stops[c[1]][c[2]][2], c[1] - 1>>
================================================================================
