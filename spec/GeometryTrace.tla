---------------------------- MODULE GeometryTrace ----------------------------
(* C09 trace validation.  One trace = one widget term (probe leaves that paint their own id   *)
(* in every cell they own, plus real Edit / SelectableIcon leaves tagged the same way) at one *)
(* size.  Event "render" records the focused rendering as a grid of painted ids, its cursor,  *)
(* the cursor get_cursor_coords() reported BEFORE rendering, and per leaf: the size it was    *)
(* rendered at and the matrix of answers the leaf itself gives to move_cursor_to_coords for   *)
(* each of its own cells (acc) and the cursor the leaf itself shows after accepting (acur),   *)
(* asked on a separate copy in the same focus state.  Events "press" and "move" record what   *)
(* the leaves received when the ROOT was sent a button-1 press / move_cursor_to_coords for a  *)
(* cell of the rendered area (each on a fresh copy in the rendered state).                    *)
(* All geometry (which leaf owns the cell, its painted origin, the translated coordinates,    *)
(* the fit precondition) is computed here from the grid.                                      *)
(*                                                                                            *)
(* Histories.  The three views must agree in every state the widget tree reaches, not only in *)
(* the freshly built one: after the last press / move the trace continues on a copy in the    *)
(* rendered state with events "step": a key sent to the root (op key), the application moving *)
(* the cursor of an Edit (op setpos) or of a probe (op probecur).  A step records the cursor  *)
(* get_cursor_coords() reports BEFORE anything is rendered again, the cursor of the focused   *)
(* rendering made afterwards, and the new grid / sizes; it is judged by the same sentence as  *)
(* the first rendering, under the fit precondition of the NEW grid, and becomes the current   *)
(* geometry (state variables grid, leaves, fits).                                             *)
(*                                                                                            *)
(* Structure steps.  Applications also change the tree by program, and the statement holds in *)
(* the states reached that way: op focus (focus_position of a Pile / Columns / GridFlow /     *)
(* Frame / ListBox at `path` set to child n: a leaf last drawn WITHOUT the focus is asked for *)
(* its cursor before it was ever drawn with it), op lbfocus (the focus of a ListBox changed   *)
(* through its walker, behind the list box's back), op lbvalign (set_focus_valign), op lbdel  *)
(* / lbins (an item above the focus of a ListBox deleted / a copy of item x inserted: the     *)
(* offset the list box stored is no longer the one it lays the list out with), op unfocus     *)
(* (the whole tree drawn once without the focus).  After a structure step the state reached   *)
(* is hit-tested like the fresh one: "press" events with after = number of steps made so far, *)
(* each applied to a copy brought into that state by the same steps, judged against the grid  *)
(* of that step (state variable nsteps ties a press to the geometry it was made on).          *)
EXTENDS WidgetTreeOps, Json, IOUtils, TLC

\* self-test of the geometry operators (evaluated by TLC at start-up)
ASSUME LET g == << <<0, 1, 1, 0>>, <<0, 1, 1, 2>> >> IN
         /\ OriginX(g, 1) = 1 /\ OriginY(g, 1) = 0 /\ OriginX(g, 2) = 3 /\ OriginY(g, 2) = 1
         /\ PaintedFull(g, 1, 2, 2) /\ ~PaintedFull(g, 1, 2, 1) /\ ~PaintedFull(g, 1, 4, 1)
         /\ PaintedFull(g, 2, 1, 1) /\ ~PaintedFull(g, 3, 1, 1)
         /\ ~PaintedFull(<< <<1, 0, 1>> >>, 1, 2, 1)           \* two cells but not one rectangle

Traces == JsonDeserialize(IOEnv.TRACE_FILE)
VARIABLES tid, l, ok, why, grid, leaves, fits,
          nsteps        \* the number of history steps behind the current geometry (0: the first rendering)
vars == <<tid, l, ok, why, grid, leaves, fits, nsteps>>

Init == tid \in 1..Len(Traces) /\ l = 0 /\ ok = TRUE /\ why = "-" /\ grid = <<>> /\ leaves = <<>> /\ fits = FALSE /\ nsteps = 0

LeafOf(ls, id) == ls[CHOOSE i \in 1..Len(ls) : ls[i].id = id]
IsLeafId(ls, id) == \E i \in 1..Len(ls) : ls[i].id = id

\* fit precondition: every leaf that is not deliberately covered (bg: below an Overlay) was rendered and is painted
\* as one full rectangle of exactly the size it was rendered at - nothing hidden or clipped for lack of space
\* and (nodes) no widget of the term that could say how many rows it needs (a flow-capable widget) was rendered with fewer
Fits(g, ls, ns) ==
               /\ Len(g) > 0
               /\ \A i \in 1..Len(ns) : ns[i].need <= ns[i].given
               /\ \A i \in 1..Len(ls) : ls[i].bg = 1 \/ (ls[i].rendered = 1 /\ ls[i].w >= 1 /\ ls[i].h >= 1 /\ PaintedFull(g, ls[i].id, ls[i].w, ls[i].h))

IdAt(g, col, row) == g[row + 1][col + 1]
SameCursor(a, b) == (Len(a) = 0 /\ Len(b) = 0) \/ (Len(a) = 2 /\ Len(b) = 2 /\ a[1] = b[1] /\ a[2] = b[2])

\* skipcur = 1: continuation of a trace whose cursor comparison was already reported (known finding); only sets the grid
RenderVerdict(e) ==
  IF ~Fits(e.grid, e.leaves, e.nodes) \/ e.skipcur = 1 THEN "-"
  ELSE IF e.exc # "" \/ ~SameCursor(e.gcc, e.rcur) THEN "cursor_coords_equal_render_cursor"
  ELSE "-"

\* the leaf drawn at the cell, when it is a foreground leaf
Target(col, row) == LET id == IdAt(grid, col, row) IN
                    IF id > 0 /\ IsLeafId(leaves, id) /\ LeafOf(leaves, id).bg = 0 THEN id ELSE 0

PressVerdict(e) ==
  LET p == Target(e.col, e.row) IN
  IF e.after # nsteps THEN "no_action"          \* a press is judged on the geometry it was made on
  ELSE IF ~fits \/ p = 0 THEN "-"
  ELSE LET ox == OriginX(grid, p)  oy == OriginY(grid, p) IN
       IF e.exc # "" \/ ~(\E i \in 1..Len(e.recv) : e.recv[i][1] = p) \/ (\E i \in 1..Len(e.recv) : e.recv[i][1] # p)
         THEN "mouse_delivered_to_drawn_child_only"
       ELSE IF \E i \in 1..Len(e.recv) : e.recv[i][2] # e.col - ox \/ e.recv[i][3] # e.row - oy
         THEN "mouse_coords_relative_to_child_origin"
       ELSE "-"

\* asked: <<leaf id, col, row, answer>> for every leaf whose move_cursor_to_coords was called
AskedDrawnChild(asked, p, x, y) ==
  /\ \E i \in 1..Len(asked) : asked[i][1] = p /\ asked[i][2] = x /\ asked[i][3] = y /\ asked[i][4] = 1
  /\ \A i \in 1..Len(asked) : asked[i][4] = 1 => asked[i][1] = p
CursorInDrawnChild(gcc, own, ox, oy) == Len(gcc) = 2 /\ Len(own) = 2 /\ gcc[1] = ox + own[1] /\ gcc[2] = oy + own[2]
ASSUME /\ AskedDrawnChild(<< <<2, 0, 1, 1>> >>, 2, 0, 1) /\ ~AskedDrawnChild(<< <<1, 3, 1, 1>> >>, 2, 0, 1)
       /\ ~AskedDrawnChild(<< <<2, 0, 1, 1>>, <<1, 3, 1, 1>> >>, 2, 0, 1) /\ AskedDrawnChild(<< <<1, 3, 1, 0>>, <<2, 0, 1, 1>> >>, 2, 0, 1)
       /\ CursorInDrawnChild(<<5, 2>>, <<1, 0>>, 4, 2) /\ ~CursorInDrawnChild(<<3, 2>>, <<1, 0>>, 4, 2) /\ ~CursorInDrawnChild(<<>>, <<1, 0>>, 4, 2)

MoveVerdict(e) ==
  LET p == Target(e.col, e.row) IN
  IF ~fits \/ p = 0 THEN "-"
  ELSE LET lf == LeafOf(leaves, p)
           ox == OriginX(grid, p)  oy == OriginY(grid, p)
           accepts == lf.acc[e.row - oy + 1][e.col - ox + 1] = 1
       IN IF lf.sel = 0 \/ lf.cursor = 0 THEN "-"      \* only leaves implementing the cursor protocol are judged
          ELSE IF e.exc # "" \/ (e.ret = 1) # accepts THEN "move_cursor_succeeds_iff_child_accepts"
          ELSE IF e.ret = 1 /\ (e.gcc_exc # "" \/ ~(Len(e.gcc_after) = 2 /\ e.gcc_after[2] = e.row)) THEN "cursor_on_requested_row"
          ELSE IF e.ret = 1 /\ ~SameCursor(e.gcc_after, e.rcur_after) THEN "cursor_coords_equal_render_cursor"
          \* the widget that accepted is the one drawn at the cell, asked for the translated cell; no other leaf accepted anything
          ELSE IF e.ret = 1 /\ ~AskedDrawnChild(e.asked, p, e.col - ox, e.row - oy) THEN "move_cursor_asks_child_drawn_at_cell"
          \* ... and the cursor is now where that leaf itself puts it for that cell (the cell, or its own choice inside its area)
          ELSE IF e.ret = 1 /\ ~CursorInDrawnChild(e.gcc_after, lf.acur[e.row - oy + 1][e.col - ox + 1], ox, oy) THEN "cursor_in_child_drawn_at_cell"
          ELSE "-"

StepKeys == {"left", "right", "up", "down", "home", "end", "x", "backspace", "delete"}
StructOps == {"focus", "lbfocus", "lbvalign", "lbdel", "lbins", "unfocus"}
StepOps == {"key", "setpos", "probecur"} \cup StructOps
StepArgsOK(e) == /\ (e.op = "key") = (e.key \in StepKeys)
                 /\ (e.op = "lbvalign") = (e.s \in {"top", "middle", "bottom"})
                 /\ e.n >= 0 /\ e.x >= 0 /\ (e.op \notin StructOps => Len(e.path) = 0 /\ e.n = 0)
\* a step of the history: whatever it did, the cursor reported before the next rendering is the cursor of that rendering
StepVerdict(e) ==
  IF e.op \notin StepOps \/ ~StepArgsOK(e) THEN "no_action"
  ELSE IF ~Fits(e.grid, e.leaves, e.nodes) THEN "-"
  ELSE IF e.exc # "" \/ ~SameCursor(e.gcc, e.rcur) THEN "cursor_coords_equal_render_cursor"
  ELSE "-"

Verdict(e) == CASE e.t = "render" -> RenderVerdict(e)
                [] e.t = "press" -> PressVerdict(e)
                [] e.t = "move" -> MoveVerdict(e)
                [] e.t = "step" -> StepVerdict(e)
                [] OTHER -> "no_action"

Step == /\ ok /\ l < Len(Traces[tid].ev) /\ l' = l + 1 /\ tid' = tid
        /\ LET e == Traces[tid].ev[l + 1]
               v == Verdict(e)
           IN /\ why' = v /\ ok' = (v = "-")
              /\ IF e.t \in {"render", "step"} THEN grid' = e.grid /\ leaves' = e.leaves /\ fits' = Fits(e.grid, e.leaves, e.nodes)
                 ELSE UNCHANGED <<grid, leaves, fits>>
              \* a "render" event names the steps behind it (0; a continuation after a known finding starts at a later geometry)
              /\ nsteps' = (CASE e.t = "render" -> e.steps [] e.t = "step" -> nsteps + 1 [] OTHER -> nsteps)
Spec == Init /\ [][Step]_vars
Report == ok \/ PrintT(<<"REJECT", tid, l, why>>)
===============================================================================
