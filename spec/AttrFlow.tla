------------------------------- MODULE AttrFlow -------------------------------
(* C17 consistency model, checked exhaustively by TLC.                                     *)
(*  mode "tree":  every markup tree of nesting depth <= D over exactly n <= N position-     *)
(*                unique characters (character = its position), tags from Tags (0 = None    *)
(*                is a tag too): AttrOf is total, equals the reference flattening, the      *)
(*                text is kept, the run-length form round-trips.                            *)
(*  mode "maps":  every chain of <= 3 maps over the attribute universe U: composition,      *)
(*                identity, None handling, untouched-unless-listed, the dictionary built    *)
(*                by fill_attr_apply (as coded) equals "outer after inner".                 *)
(*  mode "focus": every pair of elements (attr map, optional focus map) x focus flag.       *)
(*  mode "hist":  outer(inner(text)) rendered again and again while the maps are changed    *)
(*                and every canvas is kept: canvases built on the cached canvas of the      *)
(*                inner widget share its parts; copying on apply keeps every held canvas    *)
(*                right, writing the map into the shared parts (the wrong design) does not. *)
(*  ASSUME (constant level, evaluated once per run): palette instances, hexadecimal        *)
(*                colours, and the three ways to write a high-colour field (absent / given  *)
(*                without a colour / a colour) over every small entry x depth, with the     *)
(*                reading "an empty field inherits the basic colour" refuted.               *)
(* The Wrong* invariants state deliberately wrong readings and must be REFUTED.             *)
EXTENDS AttrFlowOps

CONSTANTS N, D, Tags, Modes, U, MaxKeys      \* Modes: which of "tree", "maps", "focus" are explored in this run

VARIABLES mode, m, ch, foc, plan, hs
vars == <<mode, m, ch, foc, plan, hs>>

(* ---- all markup trees ---- *)
Run(lo, hi) == [j \in 1..(hi - lo + 1) |-> lo + j - 1]
RECURSIVE TreesOver(_, _, _), ListsOver(_, _, _)
TreesOver(d, lo, hi) ==
  {Leaf(Run(lo, hi))} \cup
  (IF d = 0 THEN {}
   ELSE {TagNode(t, c) : t \in Tags, c \in TreesOver(d - 1, lo, hi)}
        \cup {ListNode(ms) : ms \in ListsOver(d - 1, lo, hi)})
ListsOver(d, lo, hi) ==          \* non-empty lists of trees of depth <= d covering lo..hi left to right
  {<<c>> : c \in TreesOver(d, lo, hi)} \cup
  UNION {{<<c>> \o rest : c \in TreesOver(d, lo, cut), rest \in ListsOver(d, cut + 1, hi)} : cut \in lo..(hi - 1)}

(* ---- all maps over U ---- *)
\* a map = a partial function U -> U, written as the sequence of its pairs in increasing key order
RECURSIVE PairsOf(_, _)
PairsOf(f, keys) == IF keys = {} THEN <<>>
                    ELSE LET k == CHOOSE k \in keys : \A q \in keys : k <= q IN <<<<k, f[k]>>>> \o PairsOf(f, keys \ {k})
MapsK(k) == UNION {{PairsOf(f, K) : f \in [K -> U]} : K \in {K \in SUBSET U : Cardinality(K) <= k}}
Maps == MapsK(MaxKeys)
El(am) == [amap |-> am, hasf |-> FALSE, fmap |-> <<>>, lvl |-> 0]
ElF(am, fm) == [amap |-> am, hasf |-> TRUE, fmap |-> fm, lvl |-> 0]

\* Tree mode is explored in steps so that TLC's workers share the enumeration and no large set is ever built: an
\* initial state fixes the number of characters and the shape of the root (a string, a tag, or a list with given cut
\* points); each step chooses the next child of the root among all trees of depth <= D-1 over its part of the text.
\* Invariants speak about finished trees (plan.done).
Bounds(k, cuts) ==        \* cuts: increasing sequence of cut points in 1..k-1  ->  sequence of <<lo, hi>> parts
  [j \in 1..(Len(cuts) + 1) |-> <<(IF j = 1 THEN 1 ELSE cuts[j - 1] + 1), (IF j = Len(cuts) + 1 THEN k ELSE cuts[j])>>]
RECURSIVE IncSeqs(_, _)
IncSeqs(lo, hi) == {<<>>} \cup UNION {{<<c>> \o r : r \in IncSeqs(c + 1, hi)} : c \in lo..hi}
Plans == UNION {{[k |-> k, root |-> "s", tag |-> 0, cuts |-> <<>>, kids |-> <<>>, done |-> FALSE]}
                \cup (IF D = 0 THEN {} ELSE
                      {[k |-> k, root |-> "t", tag |-> t, cuts |-> <<>>, kids |-> <<>>, done |-> FALSE] : t \in Tags}
                      \cup {[k |-> k, root |-> "l", tag |-> 0, cuts |-> cs, kids |-> <<>>, done |-> FALSE] : cs \in IncSeqs(1, k - 1)})
                : k \in 1..N}
PartsOf(p) == IF p.root = "l" THEN Bounds(p.k, p.cuts) ELSE <<<<1, p.k>>>>
GrowTree ==
  IF plan.root = "s"
  THEN m' = Leaf(Run(1, plan.k)) /\ plan' = [plan EXCEPT !.done = TRUE]
  ELSE LET bs == PartsOf(plan)  j == Len(plan.kids) + 1 IN
       \E c \in TreesOver(D - 1, bs[j][1], bs[j][2]) :
          IF j = Len(bs)
          THEN /\ m' = IF plan.root = "t" THEN TagNode(plan.tag, c) ELSE ListNode(Append(plan.kids, c))
               /\ plan' = [plan EXCEPT !.kids = <<>>, !.done = TRUE]
          ELSE /\ m' = m
               /\ plan' = [plan EXCEPT !.kids = Append(@, c)]
NoPlan == [k |-> 0, root |-> "-", tag |-> 0, cuts |-> <<>>, kids |-> <<>>, done |-> TRUE]

(* ---- histories of renderings over shared canvases (mode "hist") ---- *)
\* hs.cache: what the cached canvas of the inner widget shows (a function U -> U); hs.held: every canvas rendered so far
\* [shown, want, shared]: what it shows now, what it had to show when it was rendered, and whether it is built on the parts
\* of the current cached inner canvas.  hs.inplace selects the wrong design: applying the outer map rewrites the shared
\* parts, so the cached inner canvas and every canvas built on it change with each rendering of the outer widget.
HMaps == {<<>>} \cup {<<<<k, v>>>> : k \in U, v \in U}
Fn(mp) == [x \in U |-> MapGet(mp, x)]
NoHs == [inner |-> <<>>, outer |-> <<>>, cache |-> Fn(<<>>), held |-> <<>>, n |-> 0, inplace |-> FALSE]
HistSteps == 3
HRenderOuter ==
  LET shown == [x \in U |-> MapGet(hs.outer, hs.cache[x])]
      want == [x \in U |-> ApplyMaps(<<El(hs.inner), El(hs.outer)>>, FALSE, x)]
      new == [shown |-> shown, want |-> want, shared |-> TRUE]
  IN hs' = IF hs.inplace
           THEN [hs EXCEPT !.cache = shown, !.n = @ + 1,
                           !.held = Append([j \in 1..Len(@) |-> IF @[j].shared THEN [@[j] EXCEPT !.shown = shown] ELSE @[j]], new)]
           ELSE [hs EXCEPT !.held = Append(@, new), !.n = @ + 1]
HRenderInner ==      \* the inner widget on its own: its cached canvas
  hs' = [hs EXCEPT !.held = Append(@, [shown |-> hs.cache, want |-> Fn(hs.inner), shared |-> TRUE]), !.n = @ + 1]
HSetOuter(b) == hs' = [hs EXCEPT !.outer = b, !.n = @ + 1]                     \* invalidates the outer widget only
HSetInner(a) == hs' = [hs EXCEPT !.inner = a, !.cache = Fn(a), !.n = @ + 1,    \* a new inner canvas: the old parts are shared no more
                                 !.held = [j \in 1..Len(@) |-> [@[j] EXCEPT !.shared = FALSE]]]
HistNext == \/ HRenderOuter \/ HRenderInner \/ \E b \in HMaps : HSetOuter(b) \/ HSetInner(b)
HeldRight == \A j \in 1..Len(hs.held) : hs.held[j].shown = hs.held[j].want
HistLaws == mode = "hist" /\ ~hs.inplace => HeldRight
WrongInPlace == mode = "hist" /\ hs.inplace => HeldRight          \* to be refuted

Init ==
  /\ mode \in Modes
  /\ IF mode = "hist" THEN \E a \in HMaps, b \in HMaps, ip \in BOOLEAN : hs = [NoHs EXCEPT !.inner = a, !.outer = b, !.cache = Fn(a), !.inplace = ip]
     ELSE hs = NoHs
  /\ CASE mode = "tree"  -> /\ plan \in Plans /\ m = Leaf(<<>>)
                            /\ ch = <<>> /\ foc = FALSE
       [] mode = "maps"  -> /\ m = Leaf(<<>>) /\ plan = NoPlan
                            /\ \E a \in Maps : ch = <<El(a)>>          \* the two outer maps are added by Next
                            /\ foc = FALSE
       [] mode = "focus" -> /\ m = Leaf(<<>>) /\ plan = NoPlan
                            /\ \E a \in Maps : ch = <<El(a)>>          \* focus map and outer element are added by Next
                            /\ foc \in BOOLEAN
       [] mode = "hist"  -> m = Leaf(<<>>) /\ plan = NoPlan /\ ch = <<>> /\ foc = FALSE
Next == \/ /\ mode = "tree" /\ ~plan.done
           /\ GrowTree
           /\ UNCHANGED <<mode, ch, foc, hs>>
        \/ /\ mode = "maps" /\ Len(ch) = 1
           /\ \E b \in Maps, c \in Maps : ch' = ch \o <<El(b), El(c)>>
           /\ UNCHANGED <<mode, m, foc, plan, hs>>
        \/ /\ mode = "focus" /\ Len(ch) = 1
           /\ \E b \in Maps, c \in Maps, hf \in BOOLEAN : ch' = <<(IF hf THEN ElF(ch[1].amap, b) ELSE ch[1]), El(c)>>
           /\ UNCHANGED <<mode, m, foc, plan, hs>>
        \/ /\ mode = "hist" /\ hs.n < HistSteps
           /\ HistNext
           /\ UNCHANGED <<mode, m, ch, foc, plan>>
Spec == Init /\ [][Next]_vars

(* ---- markup laws ---- *)
NCh == Size(m)
Total == \A i \in 1..NCh : AttrOf(m, i) \in Tags \cup {None}
FlatEq == Flatten(m, None) = [i \in 1..NCh |-> AttrOf(m, i)]
TextKept == TextOf(m) = Run(1, NCh)
RleRoundTrip == LET f == Flatten(m, None)  r == Compress(f) IN
                /\ Expand(r) = f
                /\ \A j \in 1..(Len(r) - 1) : r[j][1] # r[j + 1][1]
                /\ RunsAgree(m, [i \in 1..NCh |-> 1], r)
                /\ RunsAgree(m, [i \in 1..NCh |-> 2], [j \in 1..Len(r) |-> <<r[j][1], 2 * r[j][2]>>])    \* two units per character
                \* a missing trailing None run is the same attribution (decompose_tagmarkup drops it)
                /\ (r # <<>> /\ r[Len(r)][1] = None => RunsAgree(m, [i \in 1..NCh |-> 1], SubSeq(r, 1, Len(r) - 1)))
TreeLaws == mode = "tree" /\ plan.done => Total /\ FlatEq /\ TextKept /\ RleRoundTrip
TreeLawsLite == mode = "tree" /\ plan.done => Total /\ FlatEq /\ TextKept       \* the largest bound: without the run-length laws
\* to be refuted
WrongOutermostWins == mode = "tree" /\ plan.done => FlattenOutermost(m, None) = Flatten(m, None)
WrongForgetsEnclosing == mode = "tree" /\ plan.done => FlattenForgetful(m, None) = Flatten(m, None)
WrongShiftedRuns == mode = "tree" /\ plan.done => LET r == Compress(Flatten(m, None)) IN      \* runs shifted by one unit are told apart
                                     Len(r) > 1 => RunsAgree(m, [i \in 1..NCh |-> 1], <<<<r[1][1], r[1][2] + 1>>>> \o Tail(r))

(* ---- map laws ---- *)
A == Eff(ch[1], foc)
B == IF Len(ch) >= 2 THEN Eff(ch[2], foc) ELSE <<>>
C == IF Len(ch) >= 3 THEN Eff(ch[3], foc) ELSE <<>>
MapLaws == mode = "maps" /\ Len(ch) = 3 =>
  /\ \A x \in U : ApplyMaps(ch, foc, x) = MapGet(C, MapGet(B, MapGet(A, x)))                 \* outer applied to the result of the inner
  /\ \A x \in U : ComposeFn(C, B, U)[MapGet(A, x)] = MapGet(C, ComposeFn(B, A, U)[x])       \* grouping does not matter
  /\ \A x \in U : AsCodedCombined(B, A, U)[x] = ComposeFn(B, A, U)[x]                        \* fill_attr_apply's dictionary
  /\ \A x \in U : ApplyMaps(<<El(A), El(<<>>), El(B)>>, foc, x) = ApplyMaps(<<El(A), El(B)>>, foc, x)   \* the empty map is the identity
  /\ \A x \in U : x \notin Keys(A) => MapGet(A, x) = x                                      \* others untouched
  /\ \A x \in U : x \in Keys(A) => MapGet(A, x) \in U
  /\ \A v \in U : \A x \in U : MapGet(<<<<None, v>>>>, x) = IF x = None THEN v ELSE x         \* fill_attr / AttrWrap: only None is replaced
  /\ Outside(<<[El(A) EXCEPT !.lvl = 0], [El(B) EXCEPT !.lvl = 1], [El(C) EXCEPT !.lvl = 2]>>, 1) = <<[El(B) EXCEPT !.lvl = 1], [El(C) EXCEPT !.lvl = 2]>>
FocusLaws == mode = "focus" /\ Len(ch) = 2 =>
  LET e == ch[1] IN
  /\ (foc /\ e.hasf => \A x \in U : ApplyMaps(ch, foc, x) = MapGet(ch[2].amap, MapGet(e.fmap, x)))     \* the focus map instead
  /\ (~(foc /\ e.hasf) => \A x \in U : ApplyMaps(ch, foc, x) = MapGet(ch[2].amap, MapGet(e.amap, x)))
\* to be refuted
WrongOrder == mode = "maps" /\ Len(ch) = 3 => \A x \in U : ApplyOuterFirst(ch, foc, x) = ApplyMaps(ch, foc, x)
WrongFocusIgnored == mode = "focus" /\ Len(ch) = 2 => \A x \in U : ApplyMaps(ch, foc, x) = ApplyMaps(ch, FALSE, x)
WrongFocusAdds == mode = "focus" /\ Len(ch) = 2 =>       \* "focus map applied on top of the attr map" instead of "instead"
  LET e == ch[1] IN foc /\ e.hasf => \A x \in U : ApplyMaps(ch, foc, x) = MapGet(ch[2].amap, MapGet(e.fmap, MapGet(e.amap, x)))

\* every wrong reading above has a counterexample within small bounds (a constant-level statement: TLC evaluates it once)
ShiftFirst(r) == <<<<r[1][1], r[1][2] + 1>>>> \o Tail(r)
WrongReadingsRefuted ==
  /\ \E t \in TreesOver(2, 1, 2) : FlattenOutermost(t, None) # Flatten(t, None)
  /\ \E t \in TreesOver(3, 1, 2) : FlattenForgetful(t, None) # Flatten(t, None)
  /\ \E t \in TreesOver(2, 1, 2) : LET r == Compress(Flatten(t, None)) IN Len(r) > 1 /\ ~RunsAgree(t, <<1, 1>>, ShiftFirst(r))
  /\ \E a \in MapsK(1), b \in MapsK(1), x \in U : ApplyOuterFirst(<<El(a), El(b)>>, FALSE, x) # ApplyMaps(<<El(a), El(b)>>, FALSE, x)
  /\ \E a \in MapsK(1), f \in MapsK(1), x \in U : ApplyMaps(<<ElF(a, f)>>, TRUE, x) # ApplyMaps(<<ElF(a, f)>>, FALSE, x)
  /\ \E a \in MapsK(1), f \in MapsK(1), x \in U : ApplyMaps(<<ElF(a, f)>>, TRUE, x) # MapGet(f, MapGet(a, x))
  /\ \E a \in MapsK(1), b \in MapsK(1), x \in U : AsCodedCombined(a, b, U)[x] # ComposeFn(b, a, U)[x]     \* the dictionary built the other way round

ASSUME RefutedWithinSmallBounds == WrongReadingsRefuted      \* checked once by TLC before the exploration starts

(* ---- palette laws (small, fixed instances) ---- *)
PE(name, fgc, bgc, hasfh, fghc, hasbh, bghc, largeh) ==
  [name |-> name, alias |-> FALSE, like |-> 0, mono |-> <<4>>, fg |-> <<fgc, <<1>>>>, bg |-> bgc,
   hasfh |-> hasfh, fgh |-> <<<<fghc, <<>>>>, <<fghc + 1, <<>>>>, <<fghc + 2, <<3>>>>>>, hasbh |-> hasbh,
   bgh |-> <<bghc, bghc + 1, bghc + 2>>, largeh |-> largeh, fghc |-> NumC, bghc |-> NumC, fghe |-> FALSE, bghe |-> FALSE]
AL(name, like) == [PE(name, 0, 0, FALSE, 0, FALSE, 0, FALSE) EXCEPT !.alias = TRUE, !.like = like]
Pal1 == <<PE(1, 9, 4, TRUE, 1016, TRUE, 1100, FALSE), AL(2, 1), PE(3, 2, -1, FALSE, 0, TRUE, 1017, TRUE), AL(1, 3), AL(4, 2)>>
PaletteLawsHold ==
  /\ ResolvePen(Pal1, 3, 1) = [fg |-> -1, bg |-> -1, fl |-> {4}]
  /\ ResolvePen(Pal1, 3, 16) = [fg |-> 2, bg |-> -1, fl |-> {1}]
  /\ ResolvePen(Pal1, 3, 88) = [fg |-> 2, bg |-> -1, fl |-> {1}]                 \* large h: the 16-colour values
  /\ ResolvePen(Pal1, 3, 256) = [fg |-> 2, bg |-> 1018, fl |-> {1}]              \* no fg_high: the foreground parameter
  /\ ResolvePen(Pal1, 3, TrueDepth) = [fg |-> 2, bg |-> 1019, fl |-> {1}]
  /\ ResolvePen(Pal1, 2, 256) = [fg |-> 1017, bg |-> 1101, fl |-> {}]            \* alias copies the entry as it was then
  /\ ResolvePen(Pal1, 4, 88) = [fg |-> 1016, bg |-> 1100, fl |-> {}]             \* alias of an alias
  /\ ResolvePen(Pal1, 1, 16) = [fg |-> 2, bg |-> -1, fl |-> {1}]                 \* re-registered name: the last one counts
  /\ ResolvePen(Pal1, 7, 256) = DefaultP /\ ResolvePen(Pal1, None, 16) = DefaultP  \* undefined names: the default
  /\ \A d \in {1, 16, 88, 256, TrueDepth} : ResolvePen(Pal1, 4, d) = ResolvePen(<<Pal1[1]>>, 1, d)
ASSUME PaletteLaws == PaletteLawsHold

(* ---- the three ways to write a high-colour field: absent (None), given without a colour ('' / settings only), a colour ---- *)
\* every entry over a basic foreground / background in {default, a colour}, basic settings {} / {bold}, and each high field
\* written in each way ("n" absent, "e" the empty string, "s" settings only, "d" the name 'default', "c" a colour)
HForm(e, fh, bh) ==
  [e EXCEPT !.hasfh = fh # "n", !.fghe = fh \in {"e", "s"},
            !.fgh = LET c == IF fh = "c" THEN 1100 ELSE IF fh = "d" THEN -1 ELSE 0
                        f == IF fh = "s" THEN <<4>> ELSE <<>>
                    IN <<<<c, f>>, <<c, f>>, <<c, f>>>>,
            !.hasbh = bh # "n", !.bghe = bh = "e",
            !.bgh = LET c == IF bh = "c" THEN 1017 ELSE IF bh = "d" THEN -1 ELSE 0 IN <<c, c, c>>]
HEntries == {HForm([PE(6, f, b, FALSE, 0, FALSE, 0, FALSE) EXCEPT !.fg = <<f, fl>>], fh, bh) :
               f \in {-1, 11}, b \in {-1, 1}, fl \in {<<>>, <<1>>}, fh \in {"n", "e", "s", "d", "c"}, bh \in {"n", "e", "d", "c"}}
HighDepths == {88, 256, TrueDepth}
HighFieldLawsHold ==
  /\ \A e \in HEntries :
       /\ PenFor(e, 1) = [fg |-> -1, bg |-> -1, fl |-> SeqSet(e.mono)]          \* the high fields do not count below 88 colours
       /\ PenFor(e, 16) = BasicPen(e)
       /\ \A d \in HighDepths : LET p == PenFor(e, d) IN
            /\ (~e.hasfh => p.fg = e.fg[1] /\ p.fl = SeqSet(e.fg[2]))           \* absent: colour and settings of the basic field
            /\ (~e.hasbh => p.bg = e.bg)
            /\ (e.hasfh /\ e.fghe => p.fg = -1 /\ p.fl = SeqSet(e.fgh[1][2]))   \* given without a colour: the terminal's own colour
            /\ (e.hasbh /\ e.bghe => p.bg = -1)
            /\ (e.hasfh /\ ~e.fghe => p.fg = e.fgh[1][1])
            /\ (e.hasbh /\ ~e.bghe => p.bg = e.bgh[1])
  \* '' and 'default' are two spellings of one thing
  /\ \A e \in HEntries : \A d \in HighDepths :
       /\ PenFor(HForm(e, "e", "e"), d) = PenFor(HForm(e, "d", "d"), d)
       /\ PenFor(HForm(e, "e", "e"), d) = DefaultP
  \* the wrong reading "an empty field is an absent field" is told apart exactly where the basic field says something
  /\ \A e \in HEntries : \A d \in {1, 16} : PenForEmptyInherits(e, d) = PenFor(e, d)
  /\ \A e \in HEntries : \A d \in HighDepths :
       (PenForEmptyInherits(e, d) # PenFor(e, d))
         <=> \/ (e.hasfh /\ e.fghe /\ e.fgh[1][2] = <<>> /\ (e.fg[1] # -1 \/ e.fg[2] # <<>>))
             \/ (e.hasbh /\ e.bghe /\ e.bg # -1)
  /\ \E e \in HEntries : PenForEmptyInherits(e, 256) # PenFor(e, 256)
ASSUME HighFieldLaws == HighFieldLawsHold

(* ---- hexadecimal RGB colours: documented examples, and the reduction of '#rrggbb' ---- *)
HexEntry(fc, bc) == [PE(5, 9, 4, TRUE, 1016, TRUE, 1100, FALSE) EXCEPT !.fghc = fc, !.bghc = bc]
HexColourLawsHold ==
  \* AttrSpec('#ddb', '#004', 256) -> AttrSpec('#dda', '#006'); AttrSpec('#ddb', '#004', 88) -> AttrSpec('#ccc', '#000', colors=88)
  /\ CubeColour(X3(13, 13, 11), 256) = 1187 /\ CubeColour(X3(0, 0, 4), 256) = 1017
  /\ CubeColour(X3(13, 13, 11), 88) = 1058 /\ CubeColour(X3(0, 0, 4), 88) = 1016
  \* colour numbers and their descriptions: 17 is '#006' (256) / '#008' (88), 230 is '#ffd', 78 is '#ffc', '#f00' is 196 / 64
  /\ CubeColour(X3(0, 0, 6), 256) = 1017 /\ CubeColour(X3(15, 15, 13), 256) = 1230 /\ CubeColour(X3(15, 0, 0), 256) = 1196
  /\ CubeColour(X3(0, 0, 8), 88) = 1017 /\ CubeColour(X3(15, 15, 12), 88) = 1078 /\ CubeColour(X3(15, 0, 0), 88) = 1064
  \* the closest cube level is never ambiguous for a one-digit intensity
  /\ \A depth \in {88, 256} : \A d \in 0..15 :
        LET s == CubeSteps(depth) IN Cardinality({i \in 1..Len(s) : \A j \in 1..Len(s) : Dist(s[i], 17 * d) <= Dist(s[j], 17 * d)}) = 1
  \* '#rrggbb' with fewer colours: like the '#rgb' of its leading digits, whatever the second digits are
  /\ \A depth \in {88, 256} : \A hi \in {0, 1, 5, 8, 13, 15} : \A lo \in {0, 7, 15} :
        /\ CubeColour(X6(16 * hi + lo, lo, 16 * lo + hi), depth) = CubeColour(X3(hi, 0, lo), depth)
        /\ CubeColour(X6(lo, 16 * hi + lo, 255), depth) = CubeColour(X3(0, hi, 15), depth)
  \* ... and not like the '#rgb' of its second digits (a wrong reading, refuted): '#d75f00' is '#d50', not '#7f0'
  /\ CubeColour(X6(215, 95, 0), 88) = CubeColour(X3(13, 5, 0), 88) /\ CubeColour(X6(215, 95, 0), 88) # CubeColour(X3(7, 15, 0), 88)
  /\ CubeColour(X6(215, 95, 0), 88) = 1052 /\ CubeColour(X6(31, 0, 51), 88) = 1016
  \* 2^24 colours: exact; '#rgb' there is the 256-colour cube colour it names
  /\ HexColourAt(X6(215, 95, 0), TrueDepth) = TrueDepth + 14114560
  /\ HexColourAt(X3(15, 12, 12), TrueDepth) = TrueDepth + 255 * 65536 + 215 * 256 + 215
  \* through a palette entry: the hexadecimal form counts at 88 / 256 / 2^24 colours only
  /\ LET p == <<HexEntry(X6(215, 95, 0), X6(31, 0, 51))>> IN
       /\ ResolvePen(p, 5, 88) = [fg |-> 1052, bg |-> 1016, fl |-> {}]
       /\ ResolvePen(p, 5, 256) = [fg |-> 1000 + 16 + 4 * 36 + 1 * 6, bg |-> 1000 + 16 + 1, fl |-> {}]
       /\ ResolvePen(p, 5, TrueDepth) = [fg |-> TrueDepth + 14114560, bg |-> TrueDepth + 31 * 65536 + 51, fl |-> {3}]
       /\ ResolvePen(p, 5, 16) = [fg |-> 9, bg |-> 4, fl |-> {1}]
ASSUME HexColourLaws == HexColourLawsHold
=============================================================================
