------------------------------ MODULE InputSync ------------------------------
(* C05, design model of the synchronous path over time: an application calls get_input()    *)
(* again and again (max_wait = how long a call may block; Forever = None), the bytes of a    *)
(* stream arrive in chunks at arbitrary moments.  Time is relative: age = time since the     *)
(* carried bytes were read (capped at CW), toNext = time until the next chunk arrives.       *)
(* Three designs of "when does a call decode the carried bytes as they stand":               *)
(*   "deadline"     when complete_wait has passed since they were read (the contract:        *)
(*                  a call never sleeps beyond that moment while bytes are carried);         *)
(*   "idle_flush"   whenever the call's wait ended with nothing to read (wrong: the wait     *)
(*                  that ended is max_wait, not complete_wait; TLC refutes SameAsWhole);     *)
(*   "never"        never, only more input completes them (wrong: TLC refutes                *)
(*                  FlushedWhenExpired; a lone ESC is never reported).                       *)
(* Every call of every design is also compared with the per-call contract                    *)
(* InputSyncOps!SyncCall (CallsFollowContract holds for "deadline" only).                    *)
EXTENDS InputSyncOps

CONSTANTS Alphabet, MaxLen, Mode, CW, MaxWaits, GapMax, Design
Forever == 99

VARIABLES stream, pos, pending, age, toNext, nextN, maxwait, out, expired, bad, agree
vars == <<stream, pos, pending, age, toNext, nextN, maxwait, out, expired, bad, agree>>

Streams == UNION {[1..n -> Alphabet] : n \in 1..MaxLen}
Whole(s) == DecodeAll(s, FALSE, Mode, <<>>)
Cap(x) == IF x > CW THEN CW ELSE x

Init == /\ stream \in {s \in Streams : ~Whole(s).unspec}
        /\ pos = 0 /\ pending = <<>> /\ age = 0 /\ out = <<>> /\ expired = FALSE /\ bad = FALSE /\ agree = TRUE
        /\ maxwait \in MaxWaits
        /\ toNext \in 0..GapMax /\ nextN \in 1..Len(stream)

Remaining == Len(stream) - pos
\* the environment schedules the chunk after the one just read
Schedule == IF Remaining - nextN = 0 THEN toNext' = Forever /\ nextN' = 0
            ELSE toNext' \in 0..GapMax /\ nextN' \in 1..(Remaining - nextN)

\* how long this call may sleep
Budget == IF Design = "deadline" /\ pending # <<>> /\ CW - age < maxwait THEN CW - age ELSE maxwait

\* the contract's view of the same call: carried bytes read at time -age, the call starts at 0
Contract(reads, t1) == SyncCall(pending, 0 - age, reads, t1, CW, Mode)
Agrees(c, evs, rest) == c.unspec \/ (ProjSeq(c.evs) = ProjSeq(evs) /\ c.p = rest)

\* the chunk arrives while the call sleeps (a chunk that arrives at the very moment the deadline design wakes up is not read)
ReadChunk ==
  /\ toNext # Forever
  /\ toNext <= Budget /\ ~(Design = "deadline" /\ pending # <<>> /\ toNext >= CW - age)
  /\ LET b == SubSeq(stream, pos + 1, pos + nextN)
         r == DecodeAll(pending \o b, TRUE, Mode, <<>>)
     IN /\ out' = out \o r.evs /\ pending' = r.rest /\ bad' = (bad \/ r.unspec)
        /\ expired' = (expired \/ (pending # <<>> /\ age + toNext >= CW))
        /\ agree' = (agree /\ Agrees(Contract(<<[t |-> toNext, a |-> toNext, b |-> b]>>, toNext), r.evs, r.rest))
  /\ pos' = pos + nextN /\ age' = 0
  /\ Schedule
  /\ UNCHANGED <<stream, maxwait>>

\* the call's wait ends with nothing read
Idle ==
  /\ Budget # Forever
  /\ ~(toNext # Forever /\ toNext <= Budget /\ ~(Design = "deadline" /\ pending # <<>> /\ toNext >= CW - age))
  /\ LET flush == pending # <<>> /\ CASE Design = "deadline" -> age + Budget >= CW
                                     [] Design = "idle_flush" -> TRUE
                                     [] OTHER -> FALSE
         r == IF flush THEN DecodeAll(pending, FALSE, Mode, <<>>) ELSE [evs |-> <<>>, rest |-> pending, unspec |-> FALSE]
     IN /\ out' = out \o r.evs /\ pending' = r.rest /\ bad' = (bad \/ r.unspec)
        \* the completion timeout did expire before the rest of the stream came
        /\ expired' = (expired \/ (pending # <<>> /\ pos < Len(stream) /\ age + Budget >= CW))
        /\ agree' = (agree /\ Agrees(Contract(<<>>, Budget), r.evs, r.rest))
  /\ age' = Cap(age + Budget)
  /\ toNext' = IF toNext = Forever THEN Forever ELSE toNext - Budget
  /\ UNCHANGED <<stream, pos, nextN, maxwait>>

Next == ReadChunk \/ Idle
Spec == Init /\ [][Next]_vars

Finished == pos = Len(stream) /\ pending = <<>>
\* the remainder always arrived before the completion timeout: the events are those of the whole stream
SameAsWhole == (Finished /\ ~expired /\ ~bad) => ProjSeq(out) = ProjSeq(Whole(stream).evs)
\* no call returns with bytes whose completion timeout has expired
FlushedWhenExpired == (pending # <<>> /\ ~bad) => age < CW
\* nothing is lost or invented: what was decoded plus what is carried is what was read
TailIsSuffix == Len(pending) <= pos /\ pending = SubSeq(stream, pos - Len(pending) + 1, pos)
CallsFollowContract == agree
==============================================================================
