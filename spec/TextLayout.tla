------------------------------ MODULE TextLayout ------------------------------
(* C03 model: every text over Alphabet up to MaxLen x width x wrap mode x alignment is one        *)
(* state.          TLC checks that the contract of TextLayoutOps is consistent and satisfiable   *)
(* (the greedy reference layout and its reference display meet every clause) and that it has     *)
(* bite: deliberately wrong variants of the reference layout are refuted by the clause they      *)
(* break whenever the variant differs from the reference.                                        *)
EXTENDS TextLayoutOps

CONSTANTS Alphabet, MaxLen, MaxWidth

VARIABLES text, width, wrap, align, ref
vars == <<text, width, wrap, align, ref>>

\* one state per (text, width, wrap, align); texts grow by one character per step so that TLC's workers share the
\* enumeration; ref carries the reference layout of the state (computed once)
Init == /\ text = <<>> /\ width \in 1..MaxWidth
        /\ wrap \in {"any", "space", "clip", "ellipsis"} /\ align \in {"left", "center", "right"}
        /\ ref = RefLayout(<<>>, width, wrap, align)
Next == /\ Len(text) < MaxLen
        /\ \E c \in Alphabet : text' = Append(text, c)
        /\ UNCHANGED <<width, wrap, align>>
        /\ ref' = RefLayout(text', width, wrap, align)
Spec == Init /\ [][Next]_vars

Ref == ref
Real == Ref # EmptyLayout

\* the contract is satisfiable: the reference meets every clause, its display shows it, nothing sticks out
RefValid == ValidLayout(text, width, wrap, align, 1, Ref)
RefDisplayed == LET rd == RefRender(text, width, Ref)
                IN RenderShowsLayout(text, width, Ref, rd) /\ FitsRows(width, rd)
                   /\ \A k \in 1..Len(rd) : SeqW(rd[k]) = width
RefEmptyOnlyWhenUndisplayable == UndisplayableIsEmptyLine(text, width, Ref)

-----------------------------------------------------------------------------
(* wrong variants                                                                                *)
SetSeg(lay, k, j, g) == [lay EXCEPT ![k] = [lay[k] EXCEPT ![j] = g]]
FirstT(lay) == LET P == TPos(lay) IN CHOOSE p \in P : \A q \in P : p[1] < q[1] \/ (p[1] = q[1] /\ p[2] <= q[2])

\* W1 a character shown twice: the second text segment starts one character early (inside the first one)
Dup == LET P == TPos(Ref)  f == FirstT(Ref)  R == P \ {f}
       IN IF Cardinality(P) < 2 THEN Ref
          ELSE LET s == CHOOSE p \in R : \A q \in R : p[1] < q[1] \/ (p[1] = q[1] /\ p[2] <= q[2])
                   g == Ref[s[1]][s[2]]
               IN IF g.s = Ref[f[1]][f[2]].e THEN SetSeg(Ref, s[1], s[2], [g EXCEPT !.s = g.s - 1]) ELSE Ref
DupRefuted == (Real /\ Dup # Ref) => ~OrderOnce(text, Dup)

\* W2 an ordinary character silently dropped: the first text segment loses its last character
Drop == LET P == TPos(Ref)
        IN IF P = {} THEN Ref
           ELSE LET f == FirstT(Ref)  g == Ref[f[1]][f[2]]
                IN IF g.e > g.s /\ CW[text[g.e]] = 1 /\ ~IsSp(text[g.e]) THEN SetSeg(Ref, f[1], f[2], [g EXCEPT !.e = g.e - 1]) ELSE Ref
DropRefuted == (Real /\ Drop # Ref) => ~OmittedOnlyAllowed(text, width, wrap, 1, Drop)

\* W3 a line one column too wide: a blank column appended to a full line
Over == IF Real /\ wrap \in {"any", "space"} /\ Pad(Ref[1]) + Used(text, Ref[1]) = width
        THEN [Ref EXCEPT ![1] = Ref[1] \o << HSeg(1, 0) >>] ELSE Ref
OverRefuted == (Over # Ref) => ~FitsLayout(text, width, wrap, Over)

\* W4 'any' wrapping that breaks one character early (the character moves to the next line)
Early == LET P == TPos(Ref)
         IN IF ~Real \/ wrap # "any" \/ Len(Ref) < 2 \/ Cardinality(P) < 2 THEN Ref
            ELSE LET f == FirstT(Ref)  g == Ref[f[1]][f[2]]
                     R == P \ {f}
                     s == CHOOSE p \in R : \A q \in R : p[1] < q[1] \/ (p[1] = q[1] /\ p[2] <= q[2])
                     h == Ref[s[1]][s[2]]
                 IN IF f[1] = 1 /\ s[1] = 2 /\ h.s = g.e /\ g.e - g.s >= 2 /\ CW[text[g.e]] = 1
                       /\ Used(text, Ref[2]) + 1 <= width /\ align = "left"
                    THEN SetSeg(SetSeg(Ref, 1, f[2], [g EXCEPT !.e = g.e - 1]), 2, s[2], [h EXCEPT !.s = h.s - 1])
                    ELSE Ref
EarlyRefuted == (Early # Ref) => ~AnyIsGreedy(text, width, Early)

\* W5 'space' wrapping that breaks inside a word although every word fits: the last character of line 1 moves
\*    down to line 2 together with the space that had been consumed
MidWord == IF ~Real \/ wrap # "space" \/ align # "left" \/ Len(Ref) < 2 \/ ~EveryWordFits(text, width) THEN Ref
           ELSE LET l1 == Ref[1]  l2 == Ref[2]
                IN IF Len(l1) = 2 /\ l1[1].k = "t" /\ l1[2].k = "h" /\ Len(l2) >= 1 /\ l2[1].k = "t"
                      /\ l1[1].e - l1[1].s >= 2 /\ l1[1].e < Len(text) /\ IsSp(text[l1[1].e + 1]) /\ l2[1].s = l1[1].e + 1
                      /\ WordChar(text[l1[1].e]) /\ WordChar(text[l1[1].e - 1]) /\ CW[text[l1[1].e]] = 1 /\ CW[text[l1[1].e - 1]] = 1
                      /\ Used(text, l2) + 2 <= width
                   THEN [Ref EXCEPT ![1] = << TSeg(text, l1[1].s, l1[1].e - 1) >>,
                                    ![2] = << TSeg(text, l1[1].e - 1, l2[1].e) >> \o Tail(l2)]
                   ELSE Ref
MidWordRefuted == (MidWord # Ref) => ~SpaceBreaksAtSpaces(text, width, MidWord)
MidWordOtherwiseFine == (MidWord # Ref) => OrderOnce(text, MidWord) /\ OmittedOnlyAllowed(text, width, wrap, 1, MidWord) /\ FitsLayout(text, width, wrap, MidWord)

\* W6 centring that rounds the half down; W7 right alignment that is one column short
RoundDown == IF Real THEN [k \in 1..Len(Ref) |->
                 LET ln == IF Pad(Ref[k]) # 0 THEN Tail(Ref[k]) ELSE Ref[k]
                     sp == width - Used(text, ln)
                     p == IF align = "center" /\ sp > 0 THEN sp \div 2 ELSE Pad(Ref[k])
                 IN IF p = 0 THEN ln ELSE << PSeg(p) >> \o ln] ELSE Ref
RoundDownRefuted == (RoundDown # Ref) => ~AlignPad(text, width, align, RoundDown)
Short == IF Real /\ align = "right" /\ Pad(Ref[1]) > 0
         THEN [Ref EXCEPT ![1] = IF Pad(Ref[1]) = 1 THEN Tail(Ref[1]) ELSE << PSeg(Pad(Ref[1]) - 1) >> \o Tail(Ref[1])] ELSE Ref
ShortRefuted == (Short # Ref) => ~AlignPad(text, width, align, Short)

\* W8 ellipsis mode that cuts one character more than necessary
CutMore == LET P == TPos(Ref)
           IN IF ~Real \/ wrap # "ellipsis" \/ P = {} THEN Ref
              ELSE LET f == FirstT(Ref)  g == Ref[f[1]][f[2]]
                   IN IF HasMark(Ref[f[1]]) /\ g.e - g.s >= 2 /\ CW[text[g.e]] = 1
                      THEN SetSeg(Ref, f[1], f[2], [g EXCEPT !.e = g.e - 1]) ELSE Ref
CutMoreRefuted == (CutMore # Ref) => ~OmittedOnlyAllowed(text, width, wrap, 1, CutMore)

\* W9 a display that drops the last column of the first row, W10 a display that shows a cut wide character whole
BadRowRefuted ==
  Real => LET rd == RefRender(text, width, Ref)
              r1 == rd[1]
          IN /\ Len(r1) >= 1 => ~RowShows(text, width, Ref[1], SubSeq(r1, 1, Len(r1) - 1))
             /\ ~RowShows(text, width, Ref[1], r1 \o << SP >>)

\* W11 an empty-line layout for a text that can be displayed
EmptyRefuted == ~Undisplayable(text, width) => ~ValidLayout(text, width, wrap, align, 1, EmptyLayout)

\* "variant = reference": violated (as it must be) as soon as the variant is exercised; run one by one for non-vacuity
SameDup == Dup = Ref
SameDrop == Drop = Ref
SameOver == Over = Ref
SameEarly == Early = Ref
SameMidWord == MidWord = Ref
SameRoundDown == RoundDown = Ref
SameShort == Short = Ref
SameCutMore == CutMore = Ref
=============================================================================
