---------------------------- MODULE SignalsTrace ----------------------------
(* C14 trace validation: every connect / disconnect / emit / handler call / collection   *)
(* recorded from the real urwid.signals is replayed on the abstract signal state of       *)
(* SignalsOps and each finished emit is judged by the same contract (FirstBroken).        *)
EXTENDS SignalsOps, Json, IOUtils

Traces == JsonDeserialize(IOEnv.TRACE_FILE)

VARIABLES tid, l, conn, alive, stack, tag, ok, why
vars == <<tid, l, conn, alive, stack, tag, ok, why>>

S == 1..2
N == 1..2
P == S \X N

Init == /\ tid \in 1..Len(Traces)
        /\ l = 0
        /\ conn = [p \in P |-> <<>>]
        /\ alive = {w \in 1..Traces[tid].nweak : TRUE}
        /\ stack = <<>>
        /\ tag = <<>>          \* tag[k] = the user argument given when connection k was made (several connections may share it)
        /\ ok = TRUE
        /\ why = "-"

AllEntries == UNION {{conn[p][j] : j \in 1..Len(conn[p])} : p \in P}
KilledKeys(w) == {e.k : e \in {e \in AllEntries : e.w = w}}
\* A call is identified by the user argument u it received.  Connections made with identical arguments (same callback,
\* weak and user arguments) share u and cannot be told apart by their calls, so a frame records the TAGS it called and the
\* contract of a finished emit is evaluated per tag (FirstBrokenT): any attribution of calls to connections that satisfies
\* the property is accepted, none is invented.
TagOf(k) == IF k \in 1..Len(tag) THEN tag[k] ELSE 0
Lookup(f, u) ==     \* some connection carrying u that this emit may know (all of them have the same callback and weak argument)
  LET p == <<f.s, f.n>>
      later == SelectSeq(conn[p], LAMBDA e : e.k \notin Keys(f.snap))
      cand == SelectSeq(f.snap \o later, LAMBDA e : TagOf(e.k) = u)
  IN IF cand # <<>> THEN cand[1] ELSE Entry(0, 0, 0)
StayIdx(f) == {j \in 1..Len(f.snap) : f.snap[j].k \notin f.disc}
StayWith(f, u) == {j \in StayIdx(f) : TagOf(f.snap[j].k) = u}
OthersWith(f, u) == Cardinality({j \in 1..Len(f.snap) : TagOf(f.snap[j].k) = u /\ j \notin StayIdx(f)}) + Cardinality({k \in f.added : TagOf(k) = u})
TagsSeen(f) == {TagOf(f.snap[j].k) : j \in 1..Len(f.snap)} \cup {f.called[j] : j \in 1..Len(f.called)}
NthPos(seq, x, r) ==   \* position of the r-th occurrence of x in seq (0 if there are fewer)
  LET occ == {j \in 1..Len(seq) : seq[j] = x}
  IN IF Cardinality(occ) < r THEN 0 ELSE CHOOSE j \in occ : Cardinality({i \in occ : i <= j}) = r
Rank(f, j) == Cardinality({i \in StayWith(f, TagOf(f.snap[j].k)) : i <= j})
Unamb(f) == {j \in StayIdx(f) : OthersWith(f, TagOf(f.snap[j].k)) = 0}   \* stayers whose calls are attributable without doubt
CallPos(f, j) == NthPos(f.called, TagOf(f.snap[j].k), Rank(f, j))
FirstBrokenT(f, ret) ==
  IF \E u \in TagsSeen(f) : CountIn(f.called, u) < Cardinality(StayWith(f, u)) THEN "each_connected_handler_exactly_once"
  ELSE IF \E u \in TagsSeen(f) : CountIn(f.called, u) > Cardinality(StayWith(f, u)) + OthersWith(f, u)
       THEN (IF \E u \in TagsSeen(f) : CountIn(f.called, u) > 0 /\ Cardinality(StayWith(f, u)) + OthersWith(f, u) = 0
             THEN "disconnected_handler_never_called" ELSE "each_connected_handler_exactly_once")
  ELSE IF \E j1, j2 \in Unamb(f) : j1 < j2 /\ ~(CallPos(f, j1) < CallPos(f, j2)) THEN "connection_order"
  ELSE IF ret # AnyTrue(f.rets) THEN "returns_any_true"
  ELSE "-"
ExpectedArgs(e, emitid) == (IF e.w = 0 THEN <<>> ELSE <<1000 + e.w>>) \o <<TagOf(e.k)>> \o <<2000 + emitid>>
\* first connection of (h, w, user argument u) in a handler list, as disconnect-by-arguments finds it; 0 if none
FirstWith(seq, h, w, u) ==
  LET m == SelectSeq(seq, LAMBDA e : e.h = h /\ e.w = w /\ TagOf(e.k) = u) IN IF m = <<>> THEN 0 ELSE m[1].k

\* result: [conn, alive, stack, why]
R(c, a, s, w) == [conn |-> c, alive |-> a, stack |-> s, why |-> w]

Judge(e) ==
  CASE e.t = "connect" ->
         IF e.n \notin N
         THEN R(conn, alive, stack, IF e.exc = "NameError" THEN "-" ELSE "unregistered_name_rejected")
         ELSE IF e.exc # "" THEN R(conn, alive, stack, "connect_registered_name_accepted")
         ELSE R([conn EXCEPT ![<<e.s, e.n>>] = Append(@, Entry(e.k, e.h, e.w))], alive, NoteAdd(stack, e.k), "-")   \* tag' below
    [] e.t = "disconnect" ->    \* by arguments (h, w, user argument e.k): removes ONE connection, the first such; nothing if there is none
         IF e.n \notin N THEN R(conn, alive, stack, IF e.exc = "" THEN "-" ELSE "disconnect_unconnected_does_nothing") ELSE
         LET p == <<e.s, e.n>>
             hit == FirstWith(conn[p], e.h, e.w, e.k)
         IN IF e.exc # "" THEN R(conn, alive, stack, "disconnect_unconnected_does_nothing")
            ELSE IF hit # 0 THEN R([conn EXCEPT ![p] = RemoveKey(@, hit)], alive, NoteDisc(stack, {hit}), "-")
            ELSE R(conn, alive, stack, "-")
    [] e.t = "disconnect_by_key" ->
         IF e.n \notin N THEN R(conn, alive, stack, IF e.exc = "" THEN "-" ELSE "disconnect_unconnected_does_nothing") ELSE
         LET p == <<e.s, e.n>>
             hit == \E j \in 1..Len(conn[p]) : conn[p][j].k = e.k
         IN IF e.exc # "" THEN R(conn, alive, stack, "disconnect_unconnected_does_nothing")
            ELSE IF hit THEN R([conn EXCEPT ![p] = RemoveKey(@, e.k)], alive, NoteDisc(stack, {e.k}), "-")
            ELSE R(conn, alive, stack, "-")
    [] e.t = "collect" ->
         R([p \in P |-> RemoveWeak(conn[p], e.w)], alive \ {e.w}, NoteDisc(stack, KilledKeys(e.w)), "-")
    [] e.t = "emit_begin" ->
         R(conn, alive, Append(stack, [NewFrame(e.s, e.n, conn[<<e.s, e.n>>]) EXCEPT !.i = e.id]), "-")
    [] e.t = "call" ->
         IF stack = <<>> THEN R(conn, alive, stack, "call_outside_emit") ELSE
         LET f == stack[Len(stack)]
             ent == Lookup(f, e.k)
             f1 == [f EXCEPT !.called = Append(@, e.k), !.rets = Append(@, e.ret)]
             stk == [stack EXCEPT ![Len(stack)] = f1]
         IN IF e.emit # f.i THEN R(conn, alive, stk, "call_belongs_to_current_emit")
            ELSE IF ent.k = 0 THEN R(conn, alive, stk, "disconnected_handler_never_called")
            ELSE IF ent.w # 0 /\ ent.w \notin alive THEN R(conn, alive, stk, "dead_weak_arg_never_called")
            ELSE IF e.args # ExpectedArgs(ent, f.i) THEN R(conn, alive, stk, "weak_then_user_then_emit_args")
            ELSE R(conn, alive, stk, "-")
    [] e.t = "emit_end" ->
         IF stack = <<>> THEN R(conn, alive, stack, "emit_end_without_begin") ELSE
         LET f == stack[Len(stack)]
         IN R(conn, alive, SubSeq(stack, 1, Len(stack) - 1),
              IF e.exc # "" THEN "emit_raised" ELSE IF e.id # f.i THEN "emit_nesting" ELSE FirstBrokenT(f, e.ret))
    [] e.t = "drop" ->
         R(conn, alive, stack, IF ~e.senders_dead THEN "machinery_keeps_sender_alive"
                               ELSE IF ~e.weak_dead THEN "machinery_keeps_weak_arg_alive" ELSE "-")
    [] OTHER -> R(conn, alive, stack, "no_action")

Step == /\ ok
        /\ l < Len(Traces[tid].ev)
        /\ l' = l + 1
        /\ tid' = tid
        /\ LET r == Judge(Traces[tid].ev[l + 1])
           IN /\ conn' = r.conn /\ alive' = r.alive /\ stack' = r.stack
              /\ why' = r.why /\ ok' = (r.why = "-")
              /\ tag' = LET e == Traces[tid].ev[l + 1]
                         IN IF e.t = "connect" /\ e.exc = "" /\ e.n \in N THEN Append(tag, e.u) ELSE tag
Spec == Init /\ [][Step]_vars
Report == ok \/ PrintT(<<"REJECT", tid, l, why>>)
=============================================================================
