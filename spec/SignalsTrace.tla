---------------------------- MODULE SignalsTrace ----------------------------
(* C14 trace validation: every connect / disconnect / emit / handler call / collection   *)
(* recorded from the real urwid.signals is replayed on the abstract signal state of       *)
(* SignalsOps and each finished emit is judged by the same contract (FirstBroken).        *)
(*                                                                                        *)
(* Events (recorded by vf/props/c14.py):                                                  *)
(*   connect            s n h r cf ua ws us ut k exc                                      *)
(*                                             <<h, r>> = the callback: function h, bound  *)
(*                                             to receiver object r (0 = plain function);  *)
(*                                             cf = the callback object handed over is the *)
(*                                             one the caller keeps ("s") / `obj.h` fetched *)
(*                                             afresh ("n"): NO clause reads it;           *)
(*                                             ua = the deprecated user_arg (0 = None, any *)
(*                                             other id = some value that is not None),    *)
(*                                             ws = weak-argument ids, us = CONTENT of the *)
(*                                             user-argument iterable when connect was    *)
(*                                             called, ut = how it was handed over; a      *)
(*                                             connect may be made by a widget constructor *)
(*                                             (Button(on_press=, user_data=)): via = "w"  *)
(*   disconnect         s n h r cf ua ws us ut exc   by arguments: names the descriptor <<h,r,ua,ws,us>> *)
(*   disconnect_by_key  s n k exc              k may be a key of a sender that is gone     *)
(*   mutate             us                     the caller changed its own list: NOTHING happens *)
(*   collect            w dead                 the application dropped weak argument w      *)
(*   drop_sender        s dead_rc dead_gc kept own_cycles                                  *)
(*                                             the application dropped the sender in slot s *)
(*                                             (holding `kept` of its keys); a fresh sender *)
(*                                             takes the slot; own_cycles = 1: senders of   *)
(*                                             this kind (widgets) are reference cycles of  *)
(*                                             their own, never connected they need the     *)
(*                                             cycle collector too                          *)
(*   emit_begin         s n id em              em = the emitted arguments (2000+id: the    *)
(*                                             marker of emit id; 4000+s: the sender in    *)
(*                                             slot s; 5000 / 5001: False / True)          *)
(*   call               h r args emit ret      args as received: 1000+w weak argument w,   *)
(*                                             0..999 user arguments, the emitted ones,    *)
(*                                             3000+ua a user_arg value after them         *)
(*   emit_end / drop                                                                      *)
EXTENDS SignalsOps, Json, IOUtils

Traces == JsonDeserialize(IOEnv.TRACE_FILE)

VARIABLES tid, l, conn, alive, stack, tag, ok, why
vars == <<tid, l, conn, alive, stack, tag, ok, why>>

S == 1..2
N == 1..2
P == S \X N

Init == /\ tid \in 1..Len(Traces)
        /\ l = 0
        /\ conn = [p \in P |-> <<>>]
        /\ alive = {w \in 1..Traces[tid].nweak : TRUE}
        /\ stack = <<>>
        /\ tag = <<>>          \* tag[k] = the descriptor <<h, r, ua, ws, us>> connection k was made with (several connections may share it)
        /\ ok = TRUE
        /\ why = "-"

AllEntries == UNION {{conn[p][j] : j \in 1..Len(conn[p])} : p \in P}
KilledKeys(w) == {e.k : e \in {e \in AllEntries : HasWeak(e, w)}}
\* A call is identified by the callback that ran (function and receiver) and the weak and user arguments and the user_arg
\* it received, i.e. by a DESCRIPTOR.
\* Connections made with identical arguments (same callback, weak and user arguments) share it and cannot be told apart by
\* their calls, so a frame records the descriptors it called and the contract of a finished emit is evaluated per descriptor
\* (FirstBrokenT): any attribution of calls to connections that satisfies the property is accepted, none is invented.
TagOf(k) == IF k \in 1..Len(tag) THEN tag[k] ELSE <<0, 0, 0, <<>>, <<>>>>
NoEntry == Entry(0, 0, 0, 0, <<>>, <<>>)
Reach(f) ==         \* the connections this emit may know, in connection order
  f.snap \o SelectSeq(conn[<<f.s, f.n>>], LAMBDA e : e.k \notin Keys(f.snap))
Lookup(f, d) ==     \* some connection with descriptor d that this emit may know
  LET cand == SelectSeq(Reach(f), LAMBDA e : TagOf(e.k) = d) IN IF cand # <<>> THEN cand[1] ELSE NoEntry
StayIdx(f) == {j \in 1..Len(f.snap) : f.snap[j].k \notin f.disc}
StayWith(f, u) == {j \in StayIdx(f) : TagOf(f.snap[j].k) = u}
OthersWith(f, u) == Cardinality({j \in 1..Len(f.snap) : TagOf(f.snap[j].k) = u /\ j \notin StayIdx(f)}) + Cardinality({k \in f.added : TagOf(k) = u})
TagsSeen(f) == {TagOf(f.snap[j].k) : j \in 1..Len(f.snap)} \cup {f.called[j] : j \in 1..Len(f.called)}
NthPos(seq, x, r) ==   \* position of the r-th occurrence of x in seq (0 if there are fewer)
  LET occ == {j \in 1..Len(seq) : seq[j] = x}
  IN IF Cardinality(occ) < r THEN 0 ELSE CHOOSE j \in occ : Cardinality({i \in occ : i <= j}) = r
Rank(f, j) == Cardinality({i \in StayWith(f, TagOf(f.snap[j].k)) : i <= j})
Unamb(f) == {j \in StayIdx(f) : OthersWith(f, TagOf(f.snap[j].k)) = 0}   \* stayers whose calls are attributable without doubt
CallPos(f, j) == NthPos(f.called, TagOf(f.snap[j].k), Rank(f, j))
FirstBrokenT(f, ret) ==
  IF \E u \in TagsSeen(f) : CountIn(f.called, u) < Cardinality(StayWith(f, u)) THEN "each_connected_handler_exactly_once"
  ELSE IF \E u \in TagsSeen(f) : CountIn(f.called, u) > Cardinality(StayWith(f, u)) + OthersWith(f, u)
       THEN (IF \E u \in TagsSeen(f) : CountIn(f.called, u) > 0 /\ Cardinality(StayWith(f, u)) + OthersWith(f, u) = 0
             THEN "disconnected_handler_never_called" ELSE "each_connected_handler_exactly_once")
  ELSE IF \E j1, j2 \in Unamb(f) : j1 < j2 /\ ~(CallPos(f, j1) < CallPos(f, j2)) THEN "connection_order"
  ELSE IF ret # AnyTrue(f.rets) THEN "returns_any_true"
  ELSE "-"

\* arguments as recorded: weak argument w is 1000+w, user arguments are 0..999, the emitted argument of emit id is 2000+id
Map(seq, F(_)) == [j \in 1..Len(seq) |-> F(seq[j])]
WeakPart(args) == Map(SelectSeq(args, LAMBDA a : a > 1000 /\ a < 2000), LAMBDA a : a - 1000)
UserPart(args) == SelectSeq(args, LAMBDA a : a >= 0 /\ a < 1000)
TailPart(args) == Map(SelectSeq(args, LAMBDA a : a > 3000 /\ a < 4000), LAMBDA a : a - 3000)
CallDesc(e) == <<e.h, e.r, IF TailPart(e.args) = <<>> THEN NoUA ELSE TailPart(e.args)[1], WeakPart(e.args), UserPart(e.args)>>
\* the argument list of a call, exactly: weak, user (as given at connect time), emitted, user_arg if one was given
ExpectedArgs(ent, f) == Map(ent.ws, LAMBDA w : 1000 + w) \o ent.us \o f.em \o Map(UATail(ent.ua), LAMBDA u : 3000 + u)

\* Which sentence a call breaks that matches no connection the emit may know (descriptor d, handler h)
Unmatched(f, e, d) ==
  LET mine == SelectSeq(Reach(f), LAMBDA c : c.h = e.h /\ c.r = e.r)  \* connections of this callback
  IN IF d \in Range(tag) THEN "disconnected_handler_never_called"    \* made once with exactly these arguments, but not connected (here, now)
     ELSE IF \E j \in 1..Len(mine) : mine[j].us = d[5] /\ ~WeakAlive(mine[j], alive) THEN "dead_weak_arg_never_called"
     ELSE IF mine # <<>> THEN "weak_then_user_then_emit_args"        \* the callback is connected, but never with these arguments
     ELSE "disconnected_handler_never_called"

\* result: [conn, alive, stack, why]
R(c, a, s, w) == [conn |-> c, alive |-> a, stack |-> s, why |-> w]

Judge(e) ==
  CASE e.t = "connect" ->
         IF e.n \notin N
         THEN R(conn, alive, stack, IF e.exc = "NameError" THEN "-" ELSE "unregistered_name_rejected")
         ELSE IF e.exc # "" THEN R(conn, alive, stack, "connect_registered_name_accepted")
         ELSE R([conn EXCEPT ![<<e.s, e.n>>] = Append(@, Entry(e.k, e.h, e.r, e.ua, e.ws, e.us))], alive, NoteAdd(stack, e.k), "-")   \* tag' below
    [] e.t = "disconnect" ->    \* by arguments: removes ONE connection, the first made with exactly <<h, r, ua, ws, us>> (whichever object
                                \* stands for the callback <<h, r>> this time); nothing if there is none
         IF e.n \notin N THEN R(conn, alive, stack, IF e.exc = "" THEN "-" ELSE "disconnect_unconnected_does_nothing") ELSE
         LET p == <<e.s, e.n>>
             hit == FirstMatch(conn[p], e.h, e.r, e.ua, e.ws, e.us)
         IN IF e.exc # "" THEN R(conn, alive, stack, "disconnect_unconnected_does_nothing")
            ELSE IF hit # 0 THEN R([conn EXCEPT ![p] = RemoveKey(@, hit)], alive, NoteDisc(stack, {hit}), "-")
            ELSE R(conn, alive, stack, "-")
    [] e.t = "disconnect_by_key" ->
         IF e.n \notin N THEN R(conn, alive, stack, IF e.exc = "" THEN "-" ELSE "disconnect_unconnected_does_nothing") ELSE
         LET p == <<e.s, e.n>>
             hit == \E j \in 1..Len(conn[p]) : conn[p][j].k = e.k
         IN IF e.exc # "" THEN R(conn, alive, stack, "disconnect_unconnected_does_nothing")
            ELSE IF hit THEN R([conn EXCEPT ![p] = RemoveKey(@, e.k)], alive, NoteDisc(stack, {e.k}), "-")
            ELSE R(conn, alive, stack, "-")
    [] e.t = "mutate" ->        \* the arguments of a connection are those given at connect time: the caller's later changes to its list change nothing
         R(conn, alive, stack, "-")
    [] e.t = "collect" ->
         R([p \in P |-> RemoveWeak(conn[p], e.w)], alive \ {e.w}, NoteDisc(stack, KilledKeys(e.w)),
           IF e.dead THEN "-" ELSE "machinery_keeps_weak_arg_alive")
    [] e.t = "drop_sender" ->   \* the application let go of the sender (still holding e.kept keys): it must be freed there and then
         IF stack # <<>> THEN R(conn, alive, stack, "drop_sender_during_emit") ELSE
         R([p \in P |-> IF p[1] = e.s THEN <<>> ELSE conn[p]], alive, stack,
           IF ~e.dead_gc THEN "machinery_keeps_sender_alive"
           ELSE IF ~e.dead_rc /\ e.own_cycles = 0 THEN "machinery_keeps_sender_alive_until_cycle_gc" ELSE "-")
    [] e.t = "emit_begin" ->
         R(conn, alive, Append(stack, [NewFrame(e.s, e.n, conn[<<e.s, e.n>>]) EXCEPT !.i = e.id, !.em = e.em]), "-")
    [] e.t = "call" ->
         IF stack = <<>> THEN R(conn, alive, stack, "call_outside_emit") ELSE
         LET f == stack[Len(stack)]
             d == CallDesc(e)
             ent == Lookup(f, d)
             f1 == [f EXCEPT !.called = Append(@, d), !.rets = Append(@, e.ret)]
             stk == [stack EXCEPT ![Len(stack)] = f1]
         IN IF e.emit # f.i THEN R(conn, alive, stk, "call_belongs_to_current_emit")
            ELSE IF ent.k = 0 THEN R(conn, alive, stk, Unmatched(f, e, d))
            ELSE IF ~WeakAlive(ent, alive) THEN R(conn, alive, stk, "dead_weak_arg_never_called")
            ELSE IF e.args # ExpectedArgs(ent, f) THEN R(conn, alive, stk, "weak_then_user_then_emit_args")
            ELSE R(conn, alive, stk, "-")
    [] e.t = "emit_end" ->
         IF stack = <<>> THEN R(conn, alive, stack, "emit_end_without_begin") ELSE
         LET f == stack[Len(stack)]
         IN R(conn, alive, SubSeq(stack, 1, Len(stack) - 1),
              IF e.exc # "" THEN "emit_raised" ELSE IF e.id # f.i THEN "emit_nesting"
              ELSE FirstBrokenT(f, IF e.obs = 1 THEN e.ret ELSE AnyTrue(f.rets)))   \* obs = 0: a widget emitted, nobody saw emit_signal() return
    [] e.t = "drop" ->
         R(conn, alive, stack, IF ~e.senders_dead THEN "machinery_keeps_sender_alive"
                               ELSE IF ~e.senders_dead_rc /\ e.own_cycles = 0 THEN "machinery_keeps_sender_alive_until_cycle_gc"
                               ELSE IF ~e.weak_dead THEN "machinery_keeps_weak_arg_alive" ELSE "-")
    [] OTHER -> R(conn, alive, stack, "no_action")

Step == /\ ok
        /\ l < Len(Traces[tid].ev)
        /\ l' = l + 1
        /\ tid' = tid
        /\ LET r == Judge(Traces[tid].ev[l + 1])
           IN /\ conn' = r.conn /\ alive' = r.alive /\ stack' = r.stack
              /\ why' = r.why /\ ok' = (r.why = "-")
              /\ tag' = LET e == Traces[tid].ev[l + 1]
                         IN IF e.t = "connect" /\ e.exc = "" /\ e.n \in N THEN Append(tag, <<e.h, e.r, e.ua, e.ws, e.us>>) ELSE tag
Spec == Init /\ [][Step]_vars
Report == ok \/ PrintT(<<"REJECT", tid, l, why>>)
=============================================================================
