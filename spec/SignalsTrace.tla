---------------------------- MODULE SignalsTrace ----------------------------
(* C14 trace validation: every connect / disconnect / emit / handler call / collection   *)
(* recorded from the real urwid.signals is replayed on the abstract signal state of       *)
(* SignalsOps and each finished emit is judged by the same contract (FirstBroken).        *)
EXTENDS SignalsOps, Json, IOUtils

Traces == JsonDeserialize(IOEnv.TRACE_FILE)

VARIABLES tid, l, conn, alive, stack, ok, why
vars == <<tid, l, conn, alive, stack, ok, why>>

S == 1..2
N == 1..2
P == S \X N

Init == /\ tid \in 1..Len(Traces)
        /\ l = 0
        /\ conn = [p \in P |-> <<>>]
        /\ alive = {w \in 1..Traces[tid].nweak : TRUE}
        /\ stack = <<>>
        /\ ok = TRUE
        /\ why = "-"

AllEntries == UNION {{conn[p][j] : j \in 1..Len(conn[p])} : p \in P}
KilledKeys(w) == {e.k : e \in {e \in AllEntries : e.w = w}}
Lookup(f, k) ==   \* the entry with key k as this frame can know it
  LET cands == {f.snap[j] : j \in 1..Len(f.snap)} \cup AllEntries
  IN IF \E e \in cands : e.k = k THEN CHOOSE e \in cands : e.k = k ELSE Entry(0, 0, 0)
ExpectedArgs(e, emitid) == (IF e.w = 0 THEN <<>> ELSE <<1000 + e.w>>) \o <<e.k>> \o <<2000 + emitid>>

\* result: [conn, alive, stack, why]
R(c, a, s, w) == [conn |-> c, alive |-> a, stack |-> s, why |-> w]

Judge(e) ==
  CASE e.t = "connect" ->
         IF e.n \notin N
         THEN R(conn, alive, stack, IF e.exc = "NameError" THEN "-" ELSE "unregistered_name_rejected")
         ELSE IF e.exc # "" THEN R(conn, alive, stack, "connect_registered_name_accepted")
         ELSE R([conn EXCEPT ![<<e.s, e.n>>] = Append(@, Entry(e.k, e.h, e.w))], alive, NoteAdd(stack, e.k), "-")
    [] e.t = "disconnect" ->    \* by arguments (h, w, user tag k); nothing happens unless such a handler is connected
         IF e.n \notin N THEN R(conn, alive, stack, IF e.exc = "" THEN "-" ELSE "disconnect_unconnected_does_nothing") ELSE
         LET p == <<e.s, e.n>>
             hit == \E j \in 1..Len(conn[p]) : conn[p][j] = Entry(e.k, e.h, e.w)
         IN IF e.exc # "" THEN R(conn, alive, stack, "disconnect_unconnected_does_nothing")
            ELSE IF hit THEN R([conn EXCEPT ![p] = RemoveKey(@, e.k)], alive, NoteDisc(stack, {e.k}), "-")
            ELSE R(conn, alive, stack, "-")
    [] e.t = "disconnect_by_key" ->
         IF e.n \notin N THEN R(conn, alive, stack, IF e.exc = "" THEN "-" ELSE "disconnect_unconnected_does_nothing") ELSE
         LET p == <<e.s, e.n>>
             hit == \E j \in 1..Len(conn[p]) : conn[p][j].k = e.k
         IN IF e.exc # "" THEN R(conn, alive, stack, "disconnect_unconnected_does_nothing")
            ELSE IF hit THEN R([conn EXCEPT ![p] = RemoveKey(@, e.k)], alive, NoteDisc(stack, {e.k}), "-")
            ELSE R(conn, alive, stack, "-")
    [] e.t = "collect" ->
         R([p \in P |-> RemoveWeak(conn[p], e.w)], alive \ {e.w}, NoteDisc(stack, KilledKeys(e.w)), "-")
    [] e.t = "emit_begin" ->
         R(conn, alive, Append(stack, [NewFrame(e.s, e.n, conn[<<e.s, e.n>>]) EXCEPT !.i = e.id]), "-")
    [] e.t = "call" ->
         IF stack = <<>> THEN R(conn, alive, stack, "call_outside_emit") ELSE
         LET f == stack[Len(stack)]
             ent == Lookup(f, e.k)
             f1 == [f EXCEPT !.called = Append(@, e.k), !.rets = Append(@, e.ret)]
             stk == [stack EXCEPT ![Len(stack)] = f1]
         IN IF e.emit # f.i THEN R(conn, alive, stk, "call_belongs_to_current_emit")
            ELSE IF ent.k = 0 THEN R(conn, alive, stk, "disconnected_handler_never_called")
            ELSE IF ent.w # 0 /\ ent.w \notin alive THEN R(conn, alive, stk, "dead_weak_arg_never_called")
            ELSE IF e.args # ExpectedArgs(ent, f.i) THEN R(conn, alive, stk, "weak_then_user_then_emit_args")
            ELSE R(conn, alive, stk, "-")
    [] e.t = "emit_end" ->
         IF stack = <<>> THEN R(conn, alive, stack, "emit_end_without_begin") ELSE
         LET f == stack[Len(stack)]
         IN R(conn, alive, SubSeq(stack, 1, Len(stack) - 1),
              IF e.exc # "" THEN "emit_raised" ELSE IF e.id # f.i THEN "emit_nesting" ELSE FirstBroken(f, e.ret))
    [] e.t = "drop" ->
         R(conn, alive, stack, IF ~e.senders_dead THEN "machinery_keeps_sender_alive"
                               ELSE IF ~e.weak_dead THEN "machinery_keeps_weak_arg_alive" ELSE "-")
    [] OTHER -> R(conn, alive, stack, "no_action")

Step == /\ ok
        /\ l < Len(Traces[tid].ev)
        /\ l' = l + 1
        /\ tid' = tid
        /\ LET r == Judge(Traces[tid].ev[l + 1])
           IN /\ conn' = r.conn /\ alive' = r.alive /\ stack' = r.stack
              /\ why' = r.why /\ ok' = (r.why = "-")
Spec == Init /\ [][Step]_vars
Report == ok \/ PrintT(<<"REJECT", tid, l, why>>)
=============================================================================
