#!/venv/bin/python
"""Regenerate /verif/MANIFEST.json from the table below (kept valid at all times)."""
import json
import os

ROOT = os.path.dirname(os.path.dirname(os.path.abspath(__file__)))

# property -> (technique, level text, level note, design ref)
CLAIMED = {
    "C16": ("TLA+ spec MonitoredList.tla model-checked by TLC (contract + as-coded focus arithmetic); TLC trace validation "
            "(MonitoredListTrace.tla) of every bounded operation and of random / TLC-simulated histories executed on the real lists",
            "TLC checks the contract invariants and the transcribed focus arithmetic on every (list, focus, operation) within bounds, "
            "and validates recorded executions of the real MonitoredFocusList, MonitoredList, SimpleFocusListWalker and "
            "Pile/Columns/GridFlow contents against the same operators, one event per call.",
            "Trusted: TLC, PySlice.tla (list semantics), the call-through driver in vf/props/c16.py. Bounds in evidence.",
            "DESIGN.md §4 C16"),
    "C14": ("TLA+ spec Signals.tla (emit as a multi-step process over a live handler list, scripted handler behaviours, weak-argument death) "
            "model-checked by TLC against the emit contract; TLC trace validation (SignalsTrace.tla) of real urwid.signals executions driven by "
            "TLC-simulated and random scripts",
            "TLC explores every history of connect/disconnect/emit/collect with handlers that edit the list during an emit, within bounds, and shows "
            "the dispatch as coded meets the contract (and that the contract refutes the pre-fix live-index dispatch); every recorded execution of the "
            "real signal machinery is judged by the same contract operator, including argument order, NameError, weak-argument death and liveness of "
            "senders/weak arguments after the harness drops them.",
            "Trusted: TLC, the World harness in vf/props/c14.py, CPython refcounting for weak-argument death.",
            "DESIGN.md §4 C14"),
    "C04": ("TLA+ reference terminal (Terminal.tla, checked for well-formedness by TLC in TerminalMC.tla); TLC trace validation "
            "(RawDisplayTrace.tla) interprets the tokenised bytes written by the real raw_display.Screen and compares the model screen with "
            "the canvas at every frame; HtmlTrace.tla for the HTML back-end",
            "Every byte sequence the real Screen.draw_screen writes for generated frame histories (draw / clear / resize; exhaustive bottom rows "
            "for the insert trick; 60 configurations of depth x back_color_erase x encoding x bright-is-bold) is executed by the TLA+ terminal "
            "model in TLC, which decides cell text, attributes, cursor, insert-mode and never-scrolls at each frame.",
            "Trusted: TLC, Terminal.tla semantics (DESIGN.md App. E), vf/term.py tokeniser/projection, the palette expectation table.",
            "DESIGN.md §4 C04"),
    "C13": ("TLA+ contract monitor EventLoopOps.tla; generator model EventLoop.tla (scenarios x abstract loop, every service order) "
            "model-checked by TLC against the monitor (and deliberately wrong loops refuted); TLC trace validation (EventLoopTrace.tla) of the "
            "six real loops run under virtual-time selector/poller/clock doubles",
            "TLC proves the alarm/watch/idle/exception contract satisfiable by a correct loop for every bounded scenario and refutes loops that "
            "block before idle, fire alarms out of order or serve removed watches; every callback, removal, blocking wait and outcome of the real "
            "select, asyncio, tornado, twisted, zmq and trio loops on TLC-generated and random scenarios is judged by the same monitor.",
            "Trusted: TLC, vf/loops.py environment doubles (clock, selector, poller, trio instrument), scenario runner. glib loop not importable.",
            "DESIGN.md §4 C13"),
    "C12": ("TLA+ monitor MainLoopOps.tla (input order, redraw-before-wait, exception outcome, terminal modes via Terminal.tla); design model "
            "MainLoop.tla (sessions x fault points x the two ways out of _run) model-checked by TLC, wrong designs refuted; TLC trace validation "
            "(MainLoopTrace.tla) of forked real sessions: real pty + raw Screen + MainLoop on each of six event loops under virtual time with "
            "an exception injected at a chosen callback invocation",
            "TLC enumerates all bounded sessions and fault points of the MainLoop design and checks order, redraw, outcome and restoration; each "
            "real session's callbacks, waits, outcome, the bytes written to the pty (interpreted by the TLA+ terminal for mode restoration), termios "
            "and signal handlers are judged by the same monitor.",
            "Trusted: TLC, Terminal.tla mode tracking, vf/loops.py doubles, the forked session runner, vf/term.py tokeniser.",
            "DESIGN.md §4 C12"),
    "C05": ("TLA+ reference decoder InputDecoderOps.tla over the frozen documented key table InputTable.tla; fragmentation model "
            "InputDecoder.tla (parse_input's keep-the-tail algorithm, every stream over an alphabet x every cut) model-checked by TLC; TLC trace "
            "validation (InputTrace.tla) of the real Screen.parse_input: whole-stream result against the reference, fragmented deliveries against it",
            "TLC proves chunk-invariance of the decoding algorithm for all bounded streams and cuts, and judges every recorded delivery of the real "
            "decoder (all 468 table sequences, mouse/CPR reports, characters, garbage, truncations, every cut of short streams, random cuts and "
            "timeouts, three encoding modes) for names/coordinates, never-raises, byte accounting and fragmentation invariance.",
            "Trusted: TLC, InputTable.tla (frozen at the pinned commit), the reference decoder, the Rig around Screen.parse_input.",
            "DESIGN.md §4 C05"),
    "C20": ("TLA+ spec Scrollable.tla (stored position, pending action, resolve-and-clamp at render; scrollbar geometry contract) model-checked "
            "by TLC for all histories within bounds; TLC trace validation (ScrollableTrace.tla) of histories executed on real Scrollable / ScrollBar "
            "objects around row-labelled probe widgets, Text, Edit, Pile and ListBox children, the model state (stored position, pending key, rendering "
            "on screen) carried along each trace; the inductive invariant of the integer core (ScrollableInd.tla) is discharged by Apalache "
            "(base, step, implies-safe; a false claim must fail)",
            "TLC checks the after-render invariants and satisfiability/monotonicity of the bar geometry over every bounded history, and judges every "
            "render of the real widgets (every (total, height, position) swept, exhaustive two-step histories, random histories with resizes, content "
            "changes, wheel events, consuming children, fixed and flow children, ListBox under ScrollBar) for slice, bounds, reported position, bar "
            "presence, part sizes, thumb-at-top, monotonicity and child width.",
            "Trusted: TLC, the probe widgets and canvas projection in vf/props/c20.py.",
            "DESIGN.md §4 C20"),
    "C10": ("TLA+ reference editor EditOps.tla (insert/delete/move by character, display-row moves with preferred column, home/end, click) "
            "model-checked by TLC (Edit.tla: every key sequence within bounds; laws); TLC trace validation (EditTrace.tla) of key/click sequences "
            "executed on real Edit widgets, with the display rows taken from the layout the widget itself reports",
            "TLC explores every key sequence of the reference editor within bounds (offset range, cursor-on-character, no-change laws) and "
            "judges every key of every recorded sequence on the real Edit (exhaustive short sequences on small configurations, random sequences "
            "over caption/text/width/wrap/align/multiline/allow_tab/str|bytes) for text, offset, handled/unhandled, cursor cell, rendered cursor, "
            "signal order and contents; IntEdit/IntegerEdit/FloatEdit for the alphabet invariant.",
            "Trusted: TLC, stops_of() (cursor stops derived from the widget's own layout; the layout contract is C03), vf/term.char_width.",
            "DESIGN.md §4 C10"),
    "C07": ("TLA+ contract ListBoxOps.tla (contiguous slice, blanks only below and only when everything is shown, focus and cursor row visible) "
            "model-checked by TLC on an abstract list box under all bounded histories (ListBox.tla; a no-refill placement is refuted); TLC "
            "trace validation (ListBoxTrace.tla) of histories executed on real ListBox widgets over row-labelled items",
            "TLC shows the contract satisfiable under every bounded history of focus moves, scrolling, resizes and list edits, and judges the view "
            "rendered after every action of every recorded history (exhaustive small lists x keys x presses, random histories with set_focus / "
            "set_focus_valign / wheel / resize / walker insert-delete-replace; three walker kinds; heights 0,1,2,3,7; cursor rows).",
            "Trusted: TLC, the row-labelled Item widget and canvas projection in vf/props/c07.py. A ListBoxError raised by the list box's own view "
            "calculation while it handles a key / press / wheel event is judged like a rendering failure (never_raises); other exceptions "
            "from input handlers are DIVERGENCE.",
            "DESIGN.md §4 C07"),
    "C08": ("TLA+ contract FocusTreeOps.tla over a flat node table (valid focus child, focus path, arrow-to-selectable, selectable-iff-child, "
            "render-focus path); model FocusTree.tla (Pile of leaves / Columns under all bounded histories of arrows, assignments, deletions) "
            "model-checked by TLC; TLC trace validation (FocusTreeTrace.tla) of histories on real nested Pile/Columns/GridFlow/Frame/Overlay/ListBox "
            "with probe leaves",
            "TLC checks the focus invariants of the navigation model in every reachable state and judges every action of every recorded history "
            "on real containers (random nestings to depth 3; keys, presses, valid/invalid focus_position assignments, focus-path round trips, "
            "contents insert/delete/slice-assign/clear, Frame header/footer replacement) for focus validity, IndexError on invalid positions, key "
            "routing along the focus path, unchanged unhandled keys, arrows landing on selectable children, selectability after contents are set, "
            "focus-flag rendering and path round trip.",
            "Trusted: TLC, World.table() projection and probe leaves in vf/props/c08.py. Exceptions from keypress/mouse_event/render with empty "
            "containers are DIVERGENCE (rendering is C01's subject).",
            "DESIGN.md §4 C08"),
    "C19": ("TLA+ layout relations PartitionOps.tla (ColumnWidthsOK, PileRowsOK, PadOK/FillOK/OverlayOK, GridOK: one operator per sentence, plus "
            "reference allocators); consistency model Partition.tla model-checked by TLC (references satisfy every relation on all bounded "
            "configurations, seven deliberately wrong allocators refuted); TLC trace validation (PartitionTrace.tla) of configurations driven "
            "through the real Columns, Pile, Padding, Filler, Overlay and GridFlow around size-recording probe children",
            "TLC shows the contract satisfiable for every option list of <= 3 columns/rows (given/pack/weight, amounts 0..4, dividechars 0..2, "
            "min_width 1..2, every focus, available 0..12) and every align/size kind, percentage, minimum and margin 0..2, and judges every recorded "
            "answer of Columns.column_widths/get_column_sizes/render, Pile.get_item_rows/get_rows_sizes/render, Padding.padding_values, "
            "Filler.filler_values, Overlay.calculate_padding_filler/top_w_size and the painted GridFlow canvas (exhaustive small ranges, seeded "
            "random beyond: up to 6 columns, rational weights, sizes to 80) for non-negative integers, own-size-or-nothing, focus visibility, "
            "never-exceed with dividers, exact fill, proportional shares within one, requested-or-remaining child size, margins+child = available, "
            "alignment split within rounding, no negative dimension, and GridFlow cell width / reading order.",
            "Trusted: TLC, the probe widgets and rigs in vf/props/c19.py, the GridFlow canvas reader. TLC's role is enumeration and per-event "
            "contract evaluation (little temporal structure). Weaker readings judged, stronger ones (literal 'remaining space', fill with zero-sized "
            "columns, Pile never exceeds, cell width when narrower than a cell) evaluated by TLC as DIVERGENCE. Known finding: weighted shares "
            "drift beyond one cell with >= 4 weighted columns/rows.",
            "DESIGN.md §4 C19"),
    "C02": ("TLA+ grid algebra GridOps.tla (cells <<glyph, attr, charset, part>>, VStack / HJoin / Overlay / PadTrim / MapAttr / Delta, per-operation "
            "contract OpResult / OpDims / InDomain) model-checked by TLC in Canvas.tla (machine of canvas values; dimension algebra, no half "
            "characters, coordinates inside or dropped, delta law, algebraic laws between the operators, a trim without blanking refuted); TLC is also "
            "the program generator (state dump + -simulate); TLC trace validation (CanvasTrace.tla) of every program executed on the real urwid.canvas classes",
            "TLC proves the grid algebra consistent for every program within bounds and judges, cell for cell, every operation of TLC-dumped, "
            "TLC-simulated and seeded random programs (combine, join, overlay, pad/trim on all sides, trim, trim_end, fill_attr_apply, wrap, cursor / "
            "pop-up, content_delta; utf-8, euc-jp, iso8859-1) run on the real TextCanvas / SolidCanvas / BlankCanvas / CompositeCanvas: reported size, "
            "content, no half double-width glyph, coordinate translation, operands re-read unchanged after every operation, and delta applied to the old "
            "rows reproducing the new ones.",
            "Trusted: TLC, GridOps.tla (written from the property text), the content-rows-to-cells projection and alphabet table in vf/props/c02.py "
            "(checked against urwid's calc_width), program generators (re-checked by GridOps!InDomain in TLC). Leaves <= 4x3, results <= 14x10; "
            "marks share their base character's attribute; shortcuts/children not modelled. Known finding: content_delta keeps a view that moved.",
            "DESIGN.md §4 C02"),
    "C18": ("TLA+ contract AttrSpecOps.tla (xterm 256/88-colour and basic tables defined by formula, nearest-entry sets, Parse = ColourSet over "
            "structured descriptions, Describe, ColourRGB, smallest depth) whose laws AttrSpec.tla model-checks with TLC over the whole finite "
            "domain at the five depths (idempotence, exact values preserved, per-channel nearest = Euclidean nearest, smallest depth minimal; "
            "wrong variants refuted, including the gray-ramp typo the code had); TLC trace validation (AttrSpecTrace.tla) of every construction of the "
            "real urwid.display.common.AttrSpec",
            "TLC judges, one named clause per sentence, every recorded construction at depths 1/16/88/256/2^24: all basic names, h0..h255, "
            "#000..#fff, g0..g100, g#00..g#ff each as foreground and as background, all 1957 ordered subsets of the six settings, seeded #rrggbb "
            "samples, unknown names, duplicated settings, two colours, colours beyond the depth, and mutated/junk text: stored palette entry is a "
            "nearest one (ties free), exact values kept, get_rgb_values equals the xterm tables, colors is the smallest depth, the reported "
            "descriptions rebuild an equal object with equal hash and identical descriptions, == means same colours and settings, and rejections "
            "raise AttrSpecError only.",
            "Trusted: TLC, AttrSpecOps.tla tables/grammar, the text renderer and reported-text projection in vf/props/c18.py. Gray values use the "
            "documented gray scale (ramp + cube black/white); '#rrggbb' at 88/256 colours and the two readings of 'smallest depth' are reported "
            "as DIVERGENCE, not judged. Four defects found and repaired (findings/C18.json).",
            "DESIGN.md §4 C18"),
    "C15": ("TLA+ reference terminal (Terminal.tla) extended by VTermOps.tla (listed command set, tolerated console dialect, cell/colour comparison by "
            "meaning, shape and reply predicates, as-coded transcriptions of defects found); model VTerm.tla (reference terminal under every bounded "
            "command sequence on 3x3 / 4x3 grids with scrolling regions, also the generator of command sequences via tlc -simulate) model-checked by TLC; "
            "TLC trace validation (VTermTrace.tla) of a real urwid.vterm.TermCanvas: (a) one event per command fed as chunked bytes, (b) one event per "
            "feed of arbitrary bytes under a CPU-time watchdog",
            "TLC explores all bounded command sequences of the reference (grid always HxW, cursor and region inside, scrollback only grows in order, "
            "dialect results well formed, the comparator accepts the reference and refutes an erase that leaves the cursor cell) and judges every "
            "recorded step of the real emulator: after each command of TLC-simulated, random and directed sequences (with resizes and scrolled-back views) "
            "grid text and colours, cursor, scrollback, pen and region against the reference stepped by the same command; after each feed of malformed "
            "CSI/OSC/charset/UTF-8/C0/C1 streams (any chunking, resizes down to 1x1, four encodings, with and without focus) exception, watchdog, row "
            "lengths, both cursors, region and the DSR/CPR/DA replies.",
            "Trusted: TLC, Terminal.tla semantics (DESIGN.md App. E) plus the console dialect of VTermOps.tla, the stub widget / command encoder / cell "
            "projection (AttrSpec accessors) / ITIMER_VIRTUAL watchdog in vf/props/c15.py. Width-1 glyphs, autowrap on, insert and origin mode off in (a); "
            "resize semantics adopted from the emulator (shape judged only); SGR flags, xterm-vs-console differences, wide glyphs in one cell are "
            "DIVERGENCE. 13 defects found and repaired, one known finding (truecolour / palette SGR mix) in findings/C15.json.",
            "DESIGN.md §4 C15"),
    "C03": ("TLA+ contract TextLayoutOps.tla (one predicate per sentence over layout structures: OrderOnce, OmittedOnlyAllowed, Fits, AnyIsGreedy, "
            "SpaceBreaksAtSpaces, AlignPad, RenderShowsLayout, RowsEqualLines, UndisplayableIsEmptyLine, plus a greedy RefLayout) model-checked by TLC "
            "(TextLayout.tla: every text over {a, b, space, newline, wide, zero-width} x width x wrap x align; reference satisfies the contract, eight "
            "wrong layouts and two wrong displays refuted); TLC trace validation (TextLayoutTrace.tla) of the layout structure, rendered rows and row "
            "counts recorded from the real StandardTextLayout.layout / Text.rows / Text.pack / Text.render",
            "TLC shows the contract satisfiable for every bounded input and refutes duplicated, dropped, overflowing, non-greedy, mid-word, wrongly "
            "padded and over-cut layouts; it then judges, clause by clause, the implementation's own layout (byte offsets converted to character "
            "indices, an offset inside a character being a rejection) and the rows it renders for every text up to the tier's length and seeded random "
            "longer texts x widths x {any, space, clip, ellipsis} x {left, center, right} x str|bytes x {utf8, euc-jp, latin-1}, on widgets that carry "
            "a cached layout for another width/wrap/align; no comparison with the reference layout is made.",
            "Trusted: TLC, the alphabet table in vf/props/c03.py (checked each run against wcwidth, str.encode and the TLA+ width constant), the "
            "offset->index and row->class-id projections. Readings fixed in evidence.assumptions: a double-width character is a word of its own for "
            "'breaks only at spaces'; texts are representable in the encoding; a clipped overlong centred/right line may use any shift that keeps "
            "the window inside the line; space mode is not required to be greedy. Three defects found and repaired (findings/C03.json).",
            "DESIGN.md §4 C03"),
    "C11": ("TLA+ contract StrUtilOps.tla (width, offset-for-column, next/prev, trimming with pad flags, DEC charset encoding as operators "
            "over texts given as sequences of [width, byte length] characters); consistency model StrUtil.tla model-checked by TLC (laws of the "
            "property, as-coded calc_trim_text / double-byte offset search / SO-SI splitter against the contract, wrong variants refuted); TLC "
            "trace validation (StrUtilTrace.tla) of the return values of the real urwid.str_util / urwid.util functions on a str and on its "
            "encoded bytes in UTF-8, EUC-JP/Big5/GBK and Latin-1 modes, and of a sweep over every Unicode scalar value",
            "TLC checks additivity, boundary/closest/not-beyond for the offset search, next-prev identity, trim width = range and pad flags <=> "
            "straddling wide character, run lengths = encoded length and str/bytes agreement on every text of <= 5 character classes x all "
            "boundary pairs x all columns and ranges; every recorded call of calc_width, calc_text_pos, move_next/prev_char, is_wide_char, "
            "within_double_byte, decode_one(_right), calc_trim_text, trim_text_attr_cs and apply_target_encoding on all texts of <= 3-5 "
            "characters per encoding (plus random longer ones) and get_char_width / the UTF-8 path on all 1 112 064 scalar values (thorough; a seeded "
            "sample plus every width-table boundary in quick) is judged, one named clause per sentence of the property, by the same operators.",
            "Trusted: TLC, the wcwidth package as the width table (which width a code point ought to have is not decided, only anchors: ASCII, "
            "U+0300-036F, CJK/hangul/fullwidth), Python codecs for per-character bytes, StrUtilOps.DecTable (VT100 special graphics), the "
            "call-through recorder in vf/props/c11.py. Calls use offsets on character boundaries and 0 <= start_col < end_col <= width; "
            "invalid/truncated input is exercised but reported as DIVERGENCE only. Bounds in evidence.",
            "DESIGN.md §4 C11, §5"),
    "C17": ("TLA+ contract AttrFlowOps.tla (innermost-tag attribution of markup, attribute maps with focus selection and inner-to-outer "
            "composition, palette resolution per colour depth with aliases and default fallback); model AttrFlow.tla model-checked by TLC "
            "(every markup tree of depth <= 3 over <= 5 characters, every chain of three maps, wrong readings refuted); TLC trace validation "
            "(AttrFlowTrace.tla, running the emitted bytes on Terminal.tla via RawDisplayTrace.tla) of real Text / AttrMap / AttrWrap / "
            "CompositeCanvas / raw_display.Screen executions",
            "TLC proves AttrOf total and equal to a reference flattening for all bounded markup trees, the map laws (composition, identity, None, "
            "untouched-unless-listed, fill_attr_apply's dictionary = outer after inner) for all bounded chains, and refutes outermost-tag, "
            "forgotten-enclosing-tag, shifted-run, inner-after-outer and focus-map misreadings; it then judges every character of every canvas "
            "rendered by the real Text for generated nested markup over position-unique wide/multi-byte/DEC/zero-width characters (str and bytes; "
            "utf-8, euc-jp, iso8859-1) x widths x wrap x align, every cell before/after chains of <= 3 AttrMap/AttrWrap/fill_attr/fill_attr_apply at "
            "three nesting levels x focus, and every cell of the reference terminal after it decoded the SGR the real Screen wrote for palettes of "
            "all entry forms x {1,16,88,256,2^24} colours x bright-is-bold x registration order.",
            "Trusted: TLC, Terminal.tla SGR decoding (DESIGN.md App. E), vf/term.py tokeniser and colour-description table, line_hints() (source "
            "position read from the widget's own layout, re-checked by TLC against the unique glyph; layout is C03), stage-2 geometry. The inserted "
            "ellipsis mark and blanks for cut wide characters may carry None or an attribute of the text / of the cut character (the property fixes "
            "no more). Layout exceptions and charset/text mismatches are DIVERGENCE (C03/C04). Two defects found and repaired (findings/C17.json).",
            "DESIGN.md §4 C17"),
    "C06": ("TLA+ design model CanvasCache.tla (store / fetch / invalidate cascade / weak-reference cleanup as coded, canvases held or released by the "
            "environment, focus-dependent keys) model-checked by TLC against the contract CanvasCacheOps.tla, five broken designs refuted; TLC trace "
            "validation (CanvasCacheTrace.tla) of TLC-simulated and random histories executed on real widget trees with the live cache against the "
            "same tree with all caches emptied",
            "TLC shows that in every reachable state of the bounded model no cache entry can answer with an outdated canvas and that dropping the cascade, "
            "the dependency registration, live dependency lists in cleanup, the store rule or a mutator's invalidate breaks this; for every render()/rows() "
            "call of every recorded history on real Pile/Columns/GridFlow/ListBox/Frame/Filler/Padding/AttrMap/WidgetPlaceholder/LineBox/BoxAdapter/"
            "Scrollable/ScrollBar/Overlay trees (mutators, keys, mouse, contents and walker edits, focus paths, placeholder swaps, hold/drop/gc) TLC compares "
            "content, cursor and row counts of the cached path with the cache-free rendering, re-reads every canvas handed out, and checks that a change "
            "shows in the next rendering of every ancestor.",
            "Trusted: TLC, vf/props/c06.py (canvas projection, deep-copy reference with CanvasCache dictionaries swapped for empty ones and _cache_maxcol reset, "
            "cross-checked by a twin tree that never sees a cache), CPython refcounting. Three defects found and repaired (findings/C06.json). Cyclic-GC "
            "timing not explored; twin-tree differences (render side effects skipped by hits) are DIVERGENCE only.",
            "DESIGN.md §4 C06"),
    "C01": ("TLA+ widget-term calculus WidgetTreeOps.tla (advertised sizing, usable modes, well-formedness from the constructor documentation) and builder "
            "state machine WidgetTree.tla (Leaf/Wrap/Compose) model-checked by TLC (sizing laws; the documented rules' over-claim exhibited as a counterexample "
            "and reproduced on the real code); TLC enumerates (-dump) and simulates the widget terms; TLC trace validation (RenderTrace.tla) of "
            "sizing()/rows()/pack()/render() of the real widgets",
            "TLC enumerates every leaf of the option alphabets, every well-formed term to depth 1 (rep alphabet) / 2 (tiny alphabet) and simulated terms to "
            "depth 4; each is built from the real urwid classes and rendered in every sizing mode it reports, sizes 1..8 x 1..5, both focus flags, three "
            "encodings; TLC judges every event: no exception, box = requested size, flow = requested columns and rows(), fixed = pack(), every content row as "
            "wide as the canvas (widths summed in TLA+ from Unicode-database character widths), row count, cursor inside.",
            "Trusted: TLC, vf/wtree.py (term -> constructor calls, observe_render, unicodedata width table checked against wcwidth), vf/tlaparse.py. TLC's role is "
            "enumeration of the configuration space and per-event contract evaluation. Fill characters are single-column; fixed widgets of 0 columns/rows are "
            "outside 'sizes >= 1'; a depth-2 sample (not all 67k terms) is rendered; 16 defects repaired, 8 known findings in findings/C01.json.",
            "DESIGN.md §4 C01/C09"),
    "C09": ("Same generator model (WidgetTree.tla, probe leaves, geometry kinds) enumerated/simulated by TLC; geometry operators of WidgetTreeOps.tla "
            "(painted rectangles, origins, fit precondition) self-tested by TLC; TLC trace validation (GeometryTrace.tla) of get_cursor_coords / "
            "mouse_event / move_cursor_to_coords of the real containers around probe leaves and tagged real Edit / SelectableIcon widgets",
            "For every term and box/flow/fixed size that satisfies the fit precondition (decided in TLA+ from the painted id grid and the rows each widget asked "
            "for) TLC checks: get_cursor_coords() before rendering = cursor of the focused rendering; a button-1 press on every painted cell reaches exactly the "
            "leaf painted there with coordinates relative to its painted origin; move_cursor_to_coords on the root succeeds iff that leaf accepts the translated "
            "cell (its own answers recorded on a separate copy), and afterwards the reported cursor is on the requested row and equals the rendered one.",
            "Trusted: TLC, the probe / tagged widgets and observe_geometry() in vf/wtree.py, row_ids() (attributes -> id grid). Leaves under an Overlay's "
            "bottom and unpainted cells are not judged; each press/move acts on a copy in the freshly rendered state; Scrollable/ScrollBar geometry is C20's. "
            "5 defects repaired, 1 known finding in findings/C09.json.",
            "DESIGN.md §4 C01/C09"),
}

NOT_APPLICABLE = {}

ALL = [f"C{i:02d}" for i in range(1, 21)]


def main():
    checks = []
    for pid in ALL:
        if pid not in CLAIMED:
            continue
        tech, text, note, ref = CLAIMED[pid]
        checks.append({
            "property_id": pid,
            "quick_cmd": f"./check {pid} --tier quick",
            "thorough_cmd": f"./check {pid} --tier thorough",
            "evidence_file": f"/verif/evidence/{pid}.json",
            "replay_cmd_template": f"./check {pid} --replay {{path}}",
            "engine": "tlc",
            "level_claimed": {"category": "model_checking", "text": text, "design_ref": ref},
            "level_note": note,
            "technique": tech,
        })
    na = []
    for pid in ALL:
        if pid in CLAIMED:
            continue
        na.append({"property_id": pid, "reason": NOT_APPLICABLE.get(pid, "not yet built: specification and binding for this property are planned (DESIGN.md §4) but no check is registered at this commit")})
    m = {
        "version": 1,
        "setup_cmd": "./setup.sh",
        "hooks": {
            "guard": "URWID_VERIF_TRACE",
            "enable": "no source hooks: observation is by call-through wrappers and environment doubles installed by /verif/vf (DESIGN.md §6); checks import urwid from /repo's working tree",
            "baseline_off_cmd": "cd /repo && /venv/bin/python -m pytest -ra -q -p no:cacheprovider --timeout=900 --continue-on-collection-errors",
            "source_commits": [],
            "add_only": True,
        },
        "engines": [{"name": "tlc", "path": "/verif/vf/tlc.py", "serves_properties": sorted(CLAIMED),
                     "kind_free_text": "TLC 1.8 exhaustive model checking, -simulate behaviour export, and batch trace validation of recorded executions"}],
        "checks": checks,
        "not_applicable": na,
        "notes": "All checks: ./check <id> --tier quick|thorough; exit 0 held / 1 VIOLATION / 2 machinery failure. Known findings: /verif/known_findings.json.",
    }
    with open(os.path.join(ROOT, "MANIFEST.json"), "w") as f:
        json.dump(m, f, indent=1)
    print("wrote MANIFEST.json with", len(checks), "checks")


if __name__ == "__main__":
    main()
