#!/venv/bin/python
"""Rewrite the generated tables of DESIGN.md (between <!-- BEGIN x --> / <!-- END x --> markers): seeded changes and repaired defects."""
import glob
import json
import os
import re

ROOT = os.path.dirname(os.path.dirname(os.path.abspath(__file__)))


def seeded_table():
    rows = ["| id | property | file(s) changed | what it needs to manifest | caught by (quick tier) |", "|---|---|---|---|---|"]
    for mf in sorted(glob.glob(os.path.join(ROOT, "seeded", "*", "meta.json"))):
        m = json.load(open(mf))
        files = ", ".join(sorted({ln.split("|")[0].strip().replace("urwid/", "") for ln in m.get("files_touched", [])}))
        notes = m.get("author_notes", "").replace("\n", " ")
        trig = ""
        mm = re.search(r"(?i)(trigger|needs?|manifest[s]?|only)[^.]*\.", notes)
        needs = (m.get("needs") or notes)[:260].replace("|", "/")
        det = m.get("detection", {})
        d = []
        for k, v in sorted(det.items()):
            if v.get("exit") == 1:
                d.append(f"{k.split(':')[0]}: " + ", ".join(c.split(".", 1)[-1] for c in v.get("clauses", [])[:3]))
            else:
                d.append(f"{k.split(':')[0]}: MISSED (exit {v.get('exit')})")
        rows.append(f"| {m['id']} | {m['property']} | {files} | {needs} | {'; '.join(d) or 'not run'} |")
    return "\n".join(rows)


def fixed_table():
    rows = ["| property | repo commit | what failed |", "|---|---|---|"]
    files = [os.path.join(ROOT, "known_findings.json")] + sorted(glob.glob(os.path.join(ROOT, "findings", "*.json")))
    for fn in files:
        for s in json.load(open(fn)).get("fixed", []):
            m = re.match(r"fixed: property=(\S+) (\S+) (.*)", s, re.S)
            if m:
                rows.append(f"| {m.group(1)} | {m.group(2)} | {m.group(3)[:330].replace('|', '/').replace(chr(10), ' ')} |")
    return "\n".join(rows)


def findings_table():
    rows = ["| id | property | what fails | why not repaired |", "|---|---|---|---|"]
    files = [os.path.join(ROOT, "known_findings.json")] + sorted(glob.glob(os.path.join(ROOT, "findings", "*.json")))
    for fn in files:
        for f in json.load(open(fn)).get("findings", []):
            rows.append(f"| {f['id']} | {f['property']} | {f['what'][:400].replace('|', '/')} | {f.get('why_not_fixed', '')[:300].replace('|', '/')} |")
    return "\n".join(rows)


MODULES = {
    "C01": "WidgetTreeOps, WidgetTree, RenderTrace", "C02": "GridOps, Canvas, CanvasTrace", "C03": "TextLayoutOps, TextLayout, TextLayoutTrace",
    "C04": "Terminal, TerminalMC, RawDisplayTrace, HtmlTrace", "C05": "InputTable, InputDecoderOps, InputDecoder, InputTrace",
    "C06": "CanvasCacheOps, CanvasCache, CanvasCacheTrace", "C07": "ListBoxOps, ListBox, ListBoxTrace", "C08": "FocusTreeOps, FocusTree, FocusTreeTrace",
    "C09": "WidgetTreeOps, WidgetTree, GeometryTrace", "C10": "EditOps, Edit, EditTrace", "C11": "StrUtilOps, StrUtil, StrUtilTrace",
    "C12": "MainLoopOps, MainLoop, MainLoopTrace, Terminal", "C13": "EventLoopOps, EventLoop, EventLoopTrace", "C14": "SignalsOps, Signals, SignalsTrace",
    "C15": "Terminal, VTermOps, VTerm, VTermTrace", "C16": "PySlice, MonitoredListOps, MonitoredList, MonitoredListTrace",
    "C17": "AttrFlowOps, AttrFlow, AttrFlowTrace, Terminal, RawDisplayTrace", "C18": "AttrSpecOps, AttrSpec, AttrSpecTrace",
    "C19": "PartitionOps, Partition, PartitionTrace", "C20": "ScrollableOps, Scrollable, ScrollableTrace",
}


def checks_table():
    rows = ["| property | TLA+ modules (spec/) | driver | last recorded run: tier, TLC states, transitions, impl traces validated, wall |", "|---|---|---|---|"]
    man = json.load(open(os.path.join(ROOT, "MANIFEST.json")))
    claimed = {c["property_id"] for c in man["checks"]}
    for pid in sorted(MODULES):
        ev = os.path.join(ROOT, "evidence", pid + ".json")
        if pid not in claimed:
            rows.append(f"| {pid} | {MODULES[pid]} | vf/props/{pid.lower()}.py | not registered |")
            continue
        e = json.load(open(ev)) if os.path.exists(ev) else None
        cov = e["coverage"] if e else {}
        rows.append(f"| {pid} | {MODULES[pid]} | vf/props/{pid.lower()}.py | " + (f"{e['tier']}, {cov.get('states')}, {cov.get('transitions')}, "
                    f"{cov.get('traces_validated_against_impl')}, {e['wall_s']} s |" if e else "no evidence yet |"))
    return "\n".join(rows)


def main():
    p = os.path.join(ROOT, "DESIGN.md")
    s = open(p).read()
    for name, fn in (("SEEDED", seeded_table), ("FIXED", fixed_table), ("FINDINGS", findings_table), ("CHECKS", checks_table)):
        b, e = f"<!-- BEGIN {name} -->", f"<!-- END {name} -->"
        if b in s and e in s:
            s = s[: s.index(b) + len(b)] + "\n" + fn() + "\n" + s[s.index(e):]
    open(p, "w").write(s)


if __name__ == "__main__":
    main()
