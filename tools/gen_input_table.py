#!/venv/bin/python
"""One-off generator of spec/InputTable.tla from urwid's *documented* escape-sequence table as of the
pinned commit.  The output is committed and frozen: it is the reference the decoder is checked against and
is never regenerated as part of a check (a change to the code's table is a behaviour change to be detected)."""
import sys
sys.path.insert(0, "/repo")
from urwid.display import escape

seqs = [(s, n) for s, n in escape.input_sequences if n not in ("mouse", "sgrmouse")]
lines = []
for s, n in seqs:
    key = "<<" + ", ".join(str(ord(c)) for c in s) + ">>"
    lines.append(f'{key} :> "{n}"')
prefixes = set()
for s, _ in escape.input_sequences:
    for i in range(1, len(s)):
        prefixes.add(tuple(ord(c) for c in s[:i]))
pl = ", ".join("<<" + ", ".join(map(str, p)) + ">>" for p in sorted(prefixes))
ascii_ = ", ".join('"' + (chr(c) if chr(c) not in '"\\' else "\\" + chr(c)) + '"' for c in range(32, 127))
body = " @@\n  ".join(lines)
open("/verif/spec/InputTable.tla", "w").write(f"""----------------------------- MODULE InputTable -----------------------------
(* Frozen transcription of urwid's documented terminal input sequences (the bytes that     *)
(* follow ESC -> key name), generated once by tools/gen_input_table.py at the pinned        *)
(* commit.  {len(seqs)} sequences; X10 mouse (ESC [ M), SGR mouse (ESC [ <) and cursor-position         *)
(* reports are handled by rule in InputDecoderOps.                                          *)
EXTENDS Integers, Sequences, TLC

Table ==
  {body}

\\* proper prefixes of table sequences and of the mouse introducers: an ESC followed by one of
\\* these may still become a known sequence when more bytes arrive
TablePrefixes == {{{pl}}}

\\* table names that contain the word "meta " (the ESC-prefix rule treats them specially)
MetaNames == {{{", ".join('"%s"' % n for n in sorted({n for _, n in seqs if "meta " in n}))}}}

MaxSeqLen == {max(len(s) for s, _ in seqs)}

Ascii == <<{ascii_}>>   \\* Ascii[c - 31] is the one-character string for byte c in 32..126
=============================================================================
""")
print(len(seqs), "sequences", len(prefixes), "prefixes")
