#!/venv/bin/python
"""Confirm a seeded change and run the checks against it, in a scratch worktree outside /repo and /verif.

  tools/seedtest.py confirm <dir-with-patch.diff+demo.py> --prop C16 --id C16-m1 [--needs "..."]
      -> clean tree: demo exits 0; patched tree: pinned suite still passes (106 stable tests), demo exits != 0;
         on success copies patch.diff/demo.py into /verif/seeded/<id>/ and writes meta.json
  tools/seedtest.py detect <id> [--tier quick] [--props C16,C08]
      -> applies /verif/seeded/<id>/patch.diff to a scratch worktree, runs ./check for the property (VERIF_REPO=<worktree>),
         records exit code / violated clauses in meta.json["detection"]
The scratch worktree is removed afterwards.  Nothing is ever applied to /repo.
"""
import argparse
import json
import os
import re
import shutil
import subprocess
import sys
import tempfile
import xml.etree.ElementTree as ET

ROOT = os.path.dirname(os.path.dirname(os.path.abspath(__file__)))
SEEDED = os.path.join(ROOT, "seeded")
BASELINE = "/root/.vp/BASELINE.json"


def sh(cmd, **kw):
    return subprocess.run(cmd, shell=isinstance(cmd, str), capture_output=True, text=True, **kw)


class Worktree:
    def __init__(self):
        self.dir = tempfile.mkdtemp(prefix="seedwt-", dir="/tmp")
        os.rmdir(self.dir)

    def __enter__(self):
        r = sh(["git", "-C", "/repo", "worktree", "add", "--detach", self.dir, "HEAD"])
        if r.returncode:
            raise SystemExit("worktree add failed: " + r.stderr)
        return self.dir

    def __exit__(self, *a):
        sh(["git", "-C", "/repo", "worktree", "remove", "--force", self.dir])
        shutil.rmtree(self.dir, ignore_errors=True)
        sh(["git", "-C", "/repo", "worktree", "prune"])


def run_suite(wt):
    """Pinned suite in the worktree; returns the set of passing test ids in BASELINE's naming."""
    xml = os.path.join(wt, ".junit.xml")
    sh(f"cd {wt} && /venv/bin/python -m pytest -ra -q -p no:cacheprovider --timeout=900 "
       f"--continue-on-collection-errors --junitxml={xml}", timeout=1800)
    passed = set()
    if os.path.exists(xml):
        for tc in ET.parse(xml).getroot().iter("testcase"):
            if not any(ch.tag in ("failure", "error", "skipped") for ch in tc):
                passed.add(f"{tc.get('classname')}::{tc.get('name')}")
        os.unlink(xml)
    return passed


def run_demo(wt, demo):
    r = sh(f"cd {wt} && timeout 120 /venv/bin/python {demo}", env={**os.environ, "PYTHONPATH": wt})
    return r.returncode, (r.stdout + r.stderr)[-1500:]


def confirm(a):
    src = os.path.abspath(a.dir)
    patch, demo = os.path.join(src, "patch.diff"), os.path.join(src, "demo.py")
    stable = set(json.load(open(BASELINE))["stable_pass"])
    meta = {"id": a.id, "property": a.prop, "needs": a.needs or "", "ran": []}
    notes = os.path.join(src, "notes.txt")
    if os.path.exists(notes):
        meta["author_notes"] = open(notes).read().strip()
    with Worktree() as wt:
        rc0, out0 = run_demo(wt, demo)
        meta["ran"].append(f"clean tree: demo.py exit {rc0}")
        r = sh(["git", "-C", wt, "apply", patch])
        if r.returncode:
            print("patch does not apply:", r.stderr)
            return 1
        meta["files_touched"] = sh(["git", "-C", wt, "diff", "--stat"]).stdout.strip().splitlines()[:-1]
        sh(f"cd {wt} && /venv/bin/python -m compileall -q urwid")
        passed = run_suite(wt)
        missing = sorted(stable - passed)
        meta["ran"].append(f"patched tree: pinned suite, {len(stable & passed)}/{len(stable)} stable tests pass")
        rc1, out1 = run_demo(wt, demo)
        meta["ran"].append(f"patched tree: demo.py exit {rc1}")
        meta["demo_output_patched"] = out1[-600:]
    ok = rc0 == 0 and rc1 != 0 and not missing
    print(json.dumps(meta, indent=1))
    if not ok:
        print(f"NOT CONFIRMED: demo clean={rc0} patched={rc1} missing-tests={missing[:5]}\n{out0 if rc0 else ''}")
        return 1
    d = os.path.join(SEEDED, a.id)
    os.makedirs(d, exist_ok=True)
    shutil.copy(patch, os.path.join(d, "patch.diff"))
    shutil.copy(demo, os.path.join(d, "demo.py"))
    with open(os.path.join(d, "meta.json"), "w") as f:
        json.dump(meta, f, indent=1)
    print("CONFIRMED ->", d)
    return 0


def detect(a):
    d = os.path.join(SEEDED, a.id)
    mf = os.path.join(d, "meta.json")
    meta = json.load(open(mf))
    props = a.props.split(",") if a.props else [meta["property"]]
    det = meta.setdefault("detection", {})
    with Worktree() as wt:
        r = sh(["git", "-C", wt, "apply", os.path.join(d, "patch.diff")])
        if r.returncode:
            print("patch does not apply:", r.stderr)
            return 2
        for p in props:
            # private evidence/replay dirs are not needed: the run only rewrites evidence, restored below
            ev = os.path.join(ROOT, "evidence", p + ".json")
            keep = open(ev).read() if os.path.exists(ev) else None
            r = sh(f"cd {ROOT} && ./check {p} --tier {a.tier}", env={**os.environ, "VERIF_REPO": wt}, timeout=7200)
            out = r.stdout + r.stderr
            clauses = sorted(set(re.findall(r"clause=(\S+)", out)))
            nviol = len(re.findall(r"^VIOLATION ", out, re.M))
            det[f"{p}:{a.tier}"] = {"exit": r.returncode, "violation_lines": nviol, "clauses": clauses[:12]}
            print(f"{a.id} {p} {a.tier}: exit={r.returncode} violations={nviol} clauses={clauses[:6]}")
            if r.returncode not in (0, 1):
                print(out[-1500:])
            if keep is not None:
                with open(ev, "w") as f:
                    f.write(keep)
    with open(mf, "w") as f:
        json.dump(meta, f, indent=1)
    return 0


if __name__ == "__main__":
    ap = argparse.ArgumentParser()
    sub = ap.add_subparsers(dest="cmd", required=True)
    c = sub.add_parser("confirm")
    c.add_argument("dir"); c.add_argument("--prop", required=True); c.add_argument("--id", required=True); c.add_argument("--needs")
    dd = sub.add_parser("detect")
    dd.add_argument("id"); dd.add_argument("--tier", default="quick"); dd.add_argument("--props")
    a = ap.parse_args()
    sys.exit(confirm(a) if a.cmd == "confirm" else detect(a))
